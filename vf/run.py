"""Check runner: ``python -m vf.run <property-id> <quick|thorough>``.

Exit 0: every family explored completely, no violation outside known_findings.json.
Exit 1: a violation that replays on the real code with ordinary Python values
        (``VIOLATION property=<id> replay=<path>`` on stdout).
Exit 2: harness error / inconclusive (cap hit, leak, vacuous harness, model that
        does not replay, concolic mismatch).
"""
from __future__ import annotations

import hashlib
import importlib
import json
import os
import sys
import time

ROOT = os.path.dirname(os.path.dirname(os.path.abspath(__file__)))
if ROOT not in sys.path:
    sys.path.insert(0, ROOT)

from vf import explore, symx  # noqa: E402


def load_known():
    p = os.path.join(ROOT, "known_findings.json")
    if not os.path.exists(p):
        return []
    with open(p) as f:
        return json.load(f).get("findings", [])


def is_known(known, prop, family, label, sig):
    for k in known:
        if k["property"] != prop:
            continue
        if k.get("family") not in (None, family):
            continue
        if k.get("label") not in (None, label):
            continue
        if k.get("sig") not in (None, sig):
            continue
        return k
    return None


def traced_functions(fam):
    """Run the first path of a family under a profiler to list the finam functions executed."""
    seen = set()

    def prof(frame, event, _arg):
        if event == "call":
            fn = frame.f_code.co_filename
            root = os.environ.get("VERIF_REPO", "/repo") + "/src/"
            if fn.startswith(root + "finam/"):
                seen.add(fn[len(root):-3].replace("/", ".") + ":" + frame.f_code.co_qualname)

    harness = explore.load(fam["ref"])
    sys.setprofile(prof)
    try:
        symx.run_path(harness, fam["params"], [], time_sort=fam.get("time_sort", "int"),
                      query_timeout_ms=10000)
    finally:
        sys.setprofile(None)
    return seen


def sig_of(v):
    d = v.get("detail") or {}
    return str(d.get("sig", "")) if isinstance(d, dict) else ""


def main(argv=None):
    argv = argv or sys.argv[1:]
    prop = argv[0].upper()
    tier = argv[1] if len(argv) > 1 else os.environ.get("VERIF_TIER", "quick")
    seed = int(os.environ.get("VERIF_SEED", "0") or 0)
    workers = int(os.environ.get("VERIF_WORKERS", "0") or 0) or min(16, os.cpu_count() or 1)
    only = os.environ.get("VERIF_FAMILY")
    t0 = time.time()
    mod = importlib.import_module(f"vf.props.{prop.lower()}")
    fams = mod.families(tier)
    if only:
        fams = [f for f in fams if f["name"] in only.split(",")]
    known = load_known()
    ev_path = os.path.join(os.environ.get("VERIF_EVIDENCE_DIR") or os.path.join(ROOT, "evidence"), f"{prop}.json")
    os.makedirs(os.path.dirname(ev_path), exist_ok=True)
    if os.path.exists(ev_path) and not only:
        os.remove(ev_path)

    fam_stats = []
    functions = set()
    problems = []  # harness errors / inconclusive
    new_violations = []
    known_hits = {}
    tot = dict(paths=0, nontrivial=0, oblig=0, discharged=0, unknown=0, queries=0, solver_s=0.0,
               validated=0, cuts=0, paths_inconclusive=0)
    samples = []
    for fam in fams:
        name = fam["name"]
        if fam.get("kind") == "crosshair":
            from vf import chrun

            st = chrun.run_family(fam, prop, tier)
        elif fam.get("kind") == "custom":
            st = explore.load(fam["ref"])(fam, prop, tier, seed, workers)
        else:
            try:
                functions |= traced_functions(fam)
            except BaseException as e:  # pylint: disable=broad-except
                problems.append(f"{name}: tracing the first path failed: {type(e).__name__}: {e}")
            rep = explore.explore(
                fam["ref"], fam["params"], workers=fam.get("workers", workers),
                max_paths=fam.get("max_paths", 400000), max_wall_s=fam.get("max_wall_s", 1500),
                validate=fam.get("validate", True), time_sort=fam.get("time_sort", "int"),
                query_timeout_ms=fam.get("query_timeout_ms", 30000),
                max_decisions=fam.get("max_decisions", 4000), seed=seed,
                isolate_checks=fam.get("isolate_checks", False),
            )
            st = stats_of(rep, fam)
        st["name"] = name
        st["bounds"] = fam.get("bounds", "")
        st["params"] = fam.get("params")
        functions |= set(st.pop("functions", []))
        # ---- judge ----
        for p in st.pop("problems", []):
            problems.append(f"{name}: {p}")
        missing = [c for c in fam.get("must_cover", []) if c not in st.get("covered", [])]
        if missing:
            problems.append(f"{name}: reachability witnesses not covered: {missing} (vacuous harness?)")
        # group violations and replay
        groups = {}
        for v in st.pop("violations_raw", []):
            groups.setdefault((v["label"], sig_of(v)), []).append(v)
        st["violation_groups"] = []
        for (label, sig), vs in sorted(groups.items()):
            confirmed = None
            tried = 0
            for v in vs[:8]:
                tried += 1
                if fam.get("kind") in ("crosshair", "custom"):
                    ok = v.get("replayed", False)
                else:
                    c = symx.run_concrete(explore.load(fam["ref"]), fam["params"], v["inputs"],
                                          time_sort=fam.get("time_sort", "int"))
                    ok = label in c["failed"]
                if ok:
                    confirmed = v
                    break
            g = {"label": label, "sig": sig, "count": len(vs), "confirmed": confirmed is not None}
            st["violation_groups"].append(g)
            if confirmed is None:
                problems.append(
                    f"{name}: {len(vs)} solver model(s) for '{label}' [{sig}] did not reproduce on the "
                    f"real code in concrete mode ({tried} tried) -- encoding or oracle is wrong")
                continue
            k = is_known(known, prop, name, label, sig)
            if k is not None:
                known_hits[(prop, label, sig, k.get("what", ""))] = True
                g["known"] = True
                continue
            digest = hashlib.sha1(json.dumps([name, label, sig, confirmed["inputs"]], sort_keys=True,
                                             default=str).encode()).hexdigest()[:12]
            rdir = os.path.join(ROOT, "replays", prop)
            os.makedirs(rdir, exist_ok=True)
            rpath = os.path.join(rdir, f"{name}-{digest}.json")
            with open(rpath, "w") as f:
                json.dump({"property": prop, "family": name, "kind": fam.get("kind", "symx"),
                           "ref": fam["ref"], "params": fam["params"],
                           "time_sort": fam.get("time_sort", "int"), "label": label, "sig": sig,
                           "inputs": confirmed["inputs"], "detail": confirmed.get("detail"),
                           "extra": confirmed.get("extra")}, f, indent=1, default=str)
            new_violations.append((label, sig, rpath))
        for k_ in tot:
            tot[k_] += st.get(k_, 0)
        for s in st.pop("samples", [])[:2]:
            samples.append({"family": name, **s})
        fam_stats.append(st)
        print(f"[{prop}/{tier}] {name}: paths={st.get('paths')} oblig={st.get('oblig')} "
              f"discharged={st.get('discharged')} unknown={st.get('unknown')} "
              f"violations={sum(g['count'] for g in st['violation_groups'])} "
              f"complete={st.get('complete')} wall={st.get('wall_s', 0):.1f}s", flush=True)

    for (p_, label, sig, what) in known_hits:
        print(f"KNOWN-FINDING: property={p_} {label} [{sig}] {what}")
    for (label, sig, rpath) in new_violations:
        print(f"VIOLATION property={prop} replay={rpath}")
        print(f"  ({label} [{sig}])")
    for p in problems:
        print(f"HARNESS-PROBLEM: {p}")

    n_viol = len(new_violations) + len(known_hits)
    explanation = getattr(mod, "EXPLANATION", "")
    evidence = {
        "property_id": prop,
        "tier": tier,
        "seed": seed,
        "level": "other",
        "coverage": {
            "explanation": explanation + " Result of this run: "
            + ("every family explored to an empty work list; " if not problems else "INCONCLUSIVE run; ")
            + f"{tot['oblig']} obligations posed to z3, {tot['discharged']} discharged (unsat), "
              f"{tot['unknown']} unknown (excluded from the claim).",
            "evaluations": max(tot["paths"], 1),
            "distinct_nontrivial": tot["nontrivial"],
            "rule": "one evaluation = one feasible path of the real code under a distinct decision prefix "
                    "(distinct path condition); non-trivial = the path ran to the end of the harness and "
                    "posed at least one solver obligation",
            "obligations": tot["oblig"],
            "discharged": tot["discharged"],
            "unknown": tot["unknown"],
            "solver_queries": tot["queries"],
            "solver_time_s": round(tot["solver_s"], 3),
            "paths_cut_by_bound": tot["cuts"],
            "paths_inconclusive_solver_unknown": tot["paths_inconclusive"],
            "concolic_validations": tot["validated"],
            "exhaustive": not problems,
            "functions_encoded": sorted(functions),
            "families": fam_stats,
            "samples": samples or [{"note": "no completed path"}],
            "checker_cmd": f"tools/check.sh {prop} {tier}",
            "trusted_base": ["z3 5.1.0", "vf/symx.py proxies (cross-validated per path against the real "
                             "datetime/float semantics)", "CPython 3.12", "numpy object-array dispatch"],
            "known_findings_hit": [list(k) for k in known_hits],
        },
        "assumptions": list(getattr(mod, "ASSUMPTIONS", [])) + [
            "all times within 1971..2255, durations within +-35 years (datetime overflow not modelled)",
            "float arithmetic on payload values / interpolation weights is evaluated over the reals",
        ],
        "wall_s": round(time.time() - t0, 2),
        "violations": n_viol,
    }
    if not only:
        with open(ev_path, "w") as f:
            json.dump(evidence, f, indent=1, default=str)
    print(f"[{prop}/{tier}] total wall {time.time() - t0:.1f}s, obligations {tot['oblig']}, "
          f"discharged {tot['discharged']}, queries {tot['queries']}, solver {tot['solver_s']:.1f}s")
    if new_violations:
        return 1
    if problems:
        return 2
    return 0


def stats_of(rep, fam):
    problems = []
    if rep.errors:
        first = next((e for e in rep.errors if e), "")
        problems.append(f"{len(rep.errors)} path(s) ended in an unexpected exception / leak:\n{first}")
    if rep.capped:
        problems.append(f"exploration capped ({rep.capped}) after {rep.paths} paths -- inconclusive")
    if rep.inconclusive_branches and not fam.get("allow_inconclusive_paths"):
        problems.append(f"{rep.inconclusive_branches} branch feasibility queries returned unknown")
    for k in rep.aborts:
        if k in ("unknown-pc", "max-decisions", "after-violation"):
            if k == "after-violation":
                continue
            if k == "unknown-pc" and fam.get("allow_inconclusive_paths"):
                continue  # counted as paths_inconclusive and excluded from the claim (family says so in its bounds)
            problems.append(f"{rep.aborts[k]} path(s) aborted: {k}")
    if rep.val_errors:
        problems.append(f"{len(rep.val_errors)} concolic validation mismatch(es), e.g. {rep.val_errors[0]}")
    if fam.get("validate", True) and rep.validated < rep.done:
        problems.append(f"only {rep.validated} of {rep.done} completed paths were cross-validated")
    cuts = sum(v for k, v in rep.aborts.items() if k.startswith("cut:"))
    return {
        "paths": rep.paths, "paths_inconclusive": rep.aborts.get("unknown-pc", 0) + rep.inconclusive_branches, "nontrivial": rep.nontrivial, "done": rep.done, "aborts": rep.aborts, "cuts": cuts,
        "oblig": rep.oblig, "discharged": rep.discharged, "unknown": rep.unknown,
        "unknown_labels": rep.unknown_labels,
        "queries": rep.queries, "solver_s": round(rep.solver_s, 3), "validated": rep.validated,
        "covered": sorted(rep.covered), "complete": rep.complete and not problems,
        "wall_s": round(rep.wall_s, 2), "max_decisions_on_a_path": rep.max_decisions,
        "violations_raw": rep.violations, "samples": rep.samples, "problems": problems,
    }


if __name__ == "__main__":
    sys.exit(main())
