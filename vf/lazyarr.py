"""LazyArr -- an n-d array given by a (possibly symbolic) shape and an element function.

Element (i0, .., ik) of the array is ``base(*index_map(i0, .., ik))`` where ``base`` is an
uninterpreted z3 function and ``index_map`` is composed by the numpy structural operations
the real code applies (transpose, flip, moveaxis, expand_dims, leading-index).  Through
``__array_function__`` the unmodified ``StructuredGrid.to_canonical`` / ``from_canonical``
run on arrays of symbolic size.
"""
from __future__ import annotations

import numpy as np
import z3

from . import symx
from .symx import SymInt


def _t(x):
    return x.t if isinstance(x, SymInt) else z3.IntVal(int(x))


class LazyArr:
    __array_priority__ = 2000

    def __init__(self, shape, base, imap=None):
        self.shape = tuple(shape)
        self.base = base  # z3 function of len(base_rank) ints
        self.imap = imap or (lambda idx: tuple(idx))

    @property
    def ndim(self):
        return len(self.shape)

    def elem(self, idx):
        """z3 term of the element at index tuple ``idx`` (z3 Int terms / ints)."""
        idx = tuple(_t(i) if not isinstance(i, z3.ExprRef) else i for i in idx)
        return self.base(*self.imap(idx))

    # ---- structural operations ----
    def transpose(self, axes=None):
        n = self.ndim
        axes = tuple(range(n))[::-1] if axes is None else tuple(a % n for a in axes)
        old = self.imap
        # result[i] = self[ j ] with j[axes[k]] = i[k]

        def imap(idx, axes=axes, old=old, n=n):
            j = [None] * n
            for k, a in enumerate(axes):
                j[a] = idx[k]
            return old(tuple(j))

        return LazyArr(tuple(self.shape[a] for a in axes), self.base, imap)

    def flip(self, axis):
        n = self.ndim
        axis = axis % n
        size = _t(self.shape[axis])
        old = self.imap

        def imap(idx, axis=axis, size=size, old=old):
            j = list(idx)
            j[axis] = size - 1 - j[axis]
            return old(tuple(j))

        return LazyArr(self.shape, self.base, imap)

    def moveaxis(self, src, dst):
        n = self.ndim
        src, dst = src % n, dst % n
        order = [a for a in range(n) if a != src]
        order.insert(dst, src)
        return self.transpose(order)

    def expand_dims(self, axis):
        n = self.ndim + 1
        axis = axis % n
        old = self.imap

        def imap(idx, axis=axis, old=old):
            return old(tuple(i for k, i in enumerate(idx) if k != axis))

        shp = list(self.shape)
        shp.insert(axis, 1)
        return LazyArr(tuple(shp), self.base, imap)

    def take_first(self, k):
        """self[k, ...] for a concrete k"""
        old = self.imap

        def imap(idx, k=k, old=old):
            return old((z3.IntVal(k),) + tuple(idx))

        return LazyArr(self.shape[1:], self.base, imap)

    def __getitem__(self, key):
        if isinstance(key, tuple) and len(key) >= 1 and isinstance(key[0], int) and \
                all(k is Ellipsis for k in key[1:]):
            return self.take_first(key[0])
        if isinstance(key, tuple) and len(key) == 2 and key[0] is np.newaxis and key[1] is Ellipsis:
            return self.expand_dims(0)
        if isinstance(key, int):
            return self.take_first(key)
        raise symx.SymbolicLeak(f"LazyArr indexing {key!r} not modelled")

    @property
    def T(self):
        return self.transpose()

    @property
    def size(self):
        raise symx.SymbolicLeak("LazyArr.size")

    def __array__(self, *a, **k):
        raise symx.SymbolicLeak("LazyArr materialised by numpy")

    def __array_function__(self, func, types, args, kwargs):
        if func is np.shape:
            return self.shape
        if func is np.ndim:
            return self.ndim
        if func is np.transpose:
            return self.transpose(*args[1:], **kwargs)
        if func is np.flip:
            axis = kwargs.get("axis", args[1] if len(args) > 1 else None)
            if axis is None:
                r = self
                for a in range(self.ndim):
                    r = r.flip(a)
                return r
            return self.flip(axis)
        if func is np.moveaxis:
            src = kwargs.get("source", args[1] if len(args) > 1 else None)
            dst = kwargs.get("destination", args[2] if len(args) > 2 else None)
            return self.moveaxis(src, dst)
        if func is np.expand_dims:
            axis = kwargs.get("axis", args[1] if len(args) > 1 else None)
            return self.expand_dims(axis)
        raise symx.SymbolicLeak(f"numpy function {func.__name__} on LazyArr not modelled")
