"""Scheduler harness: builds real Compositions from a topology spec with symbolic
starts/steps/delays/end, runs the real ``Composition.connect``/``run`` and checks the
oracles of C01-C05 / C13 / C20 from outside (monitors), selected by ``params['props']``."""
from __future__ import annotations

import logging

import numpy as np

from . import hlib, symx
from .hlib import HComp, fm

import finam.schedule as fsched
from finam.errors import (
    FinamCircularCouplingError,
    FinamNoDataError,
    FinamTimeError,
)
from finam.interfaces import (
    ComponentStatus,
    IInput,
    ITimeComponent,
    ITimeDelayAdapter,
    NoDependencyAdapter,
)
from finam.sdk.output import CallbackOutput, Output
from finam.sdk.adapter import Adapter
from finam.adapters.time import TimeCachingAdapter


PUSH_BASED_KINDS = ("linear", "next", "prev", "step", "avg", "sum", "stack")


class HPull(fm.Component):
    """Pull-based pass-through: output value = sum of its inputs, pulled for the requested time."""

    def __init__(self, name, inputs, outputs):
        super().__init__()
        self._name = name
        self.in_names = list(inputs)
        self.out_names = list(outputs)
        self.requests = []  # (output name, time requested, [times used for own pulls])
        self.calls = []

    def _initialize(self):
        self.calls.append("initialize")
        for n in self.in_names:
            self.inputs.add(name=n, time=None, grid=fm.NoGrid(1), units=None)
        for n in self.out_names:
            self.outputs.add(CallbackOutput(callback=self._get, name=n))
        self.create_connector(pull_data=self.in_names)

    def _connect(self, start_time):
        self.calls.append("connect")
        push_infos = {}
        info = None
        for n in self.in_names:
            if self.connector.in_infos[n] is not None:
                info = self.connector.in_infos[n]
                break
        if info is not None:
            for n in self.out_names:
                if not self.connector.infos_pushed[n]:
                    push_infos[n] = info.copy_with()
        self.try_connect(start_time, push_infos=push_infos)

    def _validate(self):
        self.calls.append("validate")

    def _update(self):
        self.calls.append("update")

    def _finalize(self):
        self.calls.append("finalize")

    def _get(self, caller, time):
        if self.status in (ComponentStatus.CONNECTING, ComponentStatus.CONNECTING_IDLE,
                           ComponentStatus.INITIALIZED):
            if not self.connector.all_data_pulled:
                return None
            vals = [self.connector.in_data[n] for n in self.in_names]
        else:
            used = []
            vals = []
            for n in self.in_names:
                used.append(time)
                vals.append(self.inputs[n].pull_data(time))
            self.requests.append((caller.name, time, used))
        res = vals[0] * 1.0
        for v in vals[1:]:
            res = res + v
        return res


# ----------------------------------------------------------------------------
# topology
# ----------------------------------------------------------------------------
def build(ctx, topo):
    """Instantiate a topology spec.  Returns a dict with comps, links, symbols."""
    base = symx.SymDT.const(hlib.T0) if not ctx.concrete else hlib.T0
    comps = {}
    specs = topo["comps"]
    tcomps = [c for c in specs if c.get("kind", "time") == "time"]
    offs = {}
    # start offsets: symbolic >= 0, at least one is 0 (composition start = earliest start)
    sym_off = topo.get("offsets", True)
    for c in tcomps:
        if sym_off and len(tcomps) > 1 and not c.get("off0"):
            offs[c["name"]] = ctx.td("o_" + c["name"], lo_us=0)
        else:
            offs[c["name"]] = None
    if sym_off and len(tcomps) > 1 and all(o is not None for o in offs.values()):
        cond = None
        for o in offs.values():
            z = (o == hlib.DAY * 0)
            cond = z if cond is None else (cond | z)
        ctx.assume(cond)
    outs = {c["name"]: [] for c in specs}
    ins = {c["name"]: [] for c in specs}
    links = []
    for li, l in enumerate(topo["links"]):
        oname = l.get("out", f"o{li}")
        iname = l.get("in", f"i{li}")
        if oname not in outs[l["src"]]:
            outs[l["src"]].append(oname)
        ins[l["dst"]].append(iname)
        links.append(dict(idx=li, src=l["src"], dst=l["dst"], out=oname, inp=iname,
                          ada_spec=list(l.get("ada", [])), adapters=[]))
    for ci, c in enumerate(specs):
        n = c["name"]
        if c.get("kind", "time") == "time":
            start = base if offs[n] is None else base + offs[n]
            nst = c.get("nsteps", 1)
            steps = [ctx.td(f"s_{n}{k}", lo_us=1) for k in range(nst)]
            comps[n] = HComp(n, ci, start, steps, inputs=ins[n], outputs=outs[n],
                             initial_pull=c.get("init_pull", True), out_deps=c.get("out_deps"),
                             finish_after=c.get("finish_after"), required_idiom=c.get("required_idiom", False))
        else:
            comps[n] = HPull(n, ins[n], outs[n])
    for c in specs:
        if c.get("step_by"):
            comps[c["name"]].ctrl = comps[c["step_by"]]
    order = topo.get("order") or list(range(len(specs)))
    if order == "choice":
        import itertools
        perms = list(itertools.permutations(range(len(specs))))
        order = list(perms[ctx.choice("listing", len(perms))])
    listed = [comps[specs[i]["name"]] for i in order]
    composition = hlib.make_composition(listed, **topo.get("comp_kwargs", {}))
    delays = []
    link_order = topo.get("link_order") or list(range(len(links)))
    ada_cache = {}

    def own_adapter(li, pos):
        if (li, pos) not in ada_cache:
            ada_cache[(li, pos)] = make_adapter(ctx, links[li]["ada_spec"][pos], f"{li}_{pos}", delays)
        return ada_cache[(li, pos)]

    def chain_elems(li):
        """[output, adapters...] of link li; a tapped link shares the prefix of its parent link"""
        l = links[li]
        tap = topo["links"][li].get("tap")
        if tap is not None:
            prefix = chain_elems(tap[0])[: tap[1] + 2]
        else:
            prefix = [comps[l["src"]].outputs[l["out"]]]
        return prefix + [own_adapter(li, pos) for pos in range(len(l["ada_spec"]))]

    edges = set()
    for li in link_order:
        l = links[li]
        elems = chain_elems(li) + [comps[l["dst"]].inputs[l["inp"]]]
        for a, b in zip(elems, elems[1:]):
            if (id(a), id(b)) not in edges:
                a >> b
                edges.add((id(a), id(b)))
        l["adapters"] = elems[1:-1]

    for l in links:
        srcc = comps[l["src"]]
        if isinstance(srcc, HComp):
            for a in l["adapters"]:
                a._vf_init = srcc.start

    def chain_kinds(li):
        tap = topo["links"][li].get("tap")
        prefix = chain_kinds(tap[0])[: tap[1] + 1] if tap is not None else []
        return prefix + list(links[li]["ada_spec"])

    for l in links:
        l["kinds"] = chain_kinds(l["idx"])
    return dict(comps=comps, listed=listed, links=links, composition=composition, base=base,
                delays=delays, topo=topo)


def make_adapter(ctx, kind, tag, delays):
    if kind == "scale":
        return fm.adapters.Scale(2.0)
    if kind == "next":
        return fm.adapters.NextTime()
    if kind == "prev":
        return fm.adapters.PreviousTime()
    if kind == "linear":
        return fm.adapters.LinearTime()
    if kind == "step":
        return fm.adapters.StepTime(0.5)
    if kind == "avg":
        return fm.adapters.AvgOverTime()
    if kind == "sum":
        return fm.adapters.SumOverTime(per_time=False)
    if kind == "stack":
        return fm.adapters.StackTime()
    if kind == "dfix":
        d = ctx.td("d_" + tag, lo_us=0)
        delays.append(d)
        ada = fm.adapters.DelayFixed(d)
        ada._vf_spec = d
        return ada
    if kind.startswith("dpull"):
        n = int(kind[5:] or 1)
        d = ctx.td("d_" + tag, lo_us=0)
        ada = fm.adapters.DelayToPull(steps=n, additional_delay=d)
        # harness-side record of the (successful) pulls through this adapter, for spec_with_delay
        ada._vf_spec = (n, d)
        ada._vf_pulls = []
        ada._vf_hist = None
        orig = ada.get_data

        def get_data(time, target, _orig=orig, _ada=ada):
            r = _orig(time, target)
            _ada._vf_pulls.append(time)
            return r

        ada.get_data = get_data
        return ada
    if kind == "dpush":
        return fm.adapters.DelayToPush()
    raise ValueError(kind)


# ----------------------------------------------------------------------------
# specification walker (independent of finam.schedule)
# ----------------------------------------------------------------------------
def spec_with_delay(ada, kind, t):
    """The documented shift of a delay adapter, written from the documentation and the parameters the
    harness created the adapter with (independent of the adapter's own with_delay, which is part of what
    is checked): DelayFixed(d): t - d; DelayToPull(n, extra): time of the n-th last pull through the
    adapter (the initial time while fewer than n pulls happened) - extra; never before the initial time."""
    # start time of the data the adapter reads: the harness knows it for time-component sources (their declared
    # output time); behind a pull-based component the adapter's own record is used
    init = getattr(ada, "_vf_init", None)
    if init is None:
        init = ada.initial_time
    if kind == "dfix" and hasattr(ada, "_vf_spec"):
        off = t - ada._vf_spec
    elif kind.startswith("dpull") and hasattr(ada, "_vf_spec"):
        n, extra = ada._vf_spec
        hist = ada._vf_hist if ada._vf_hist is not None else [init] * n + list(ada._vf_pulls)
        off = hist[-n] - extra
    else:
        return ada.with_delay(t)
    return init if bool(off < init) else off


def link_request(link, t):
    """Time that will reach the source output when the consumer requests ``t``: the documented shifts of
    the adapters applied in pull order (input side first), accumulating.  Decided from the KIND each adapter
    was created with in the topology spec (not from finam's marker classes, which are part of what is being
    checked).  Returns None if a dependency-breaking adapter (DelayToPush) is on the link."""
    kinds = link.get("kinds") or [None] * len(link["adapters"])
    for ada, kind in zip(reversed(link["adapters"]), reversed(kinds)):
        if kind is None:
            kind = ("dpush" if isinstance(ada, NoDependencyAdapter) else
                    "delay" if isinstance(ada, ITimeDelayAdapter) else
                    "push_based" if ada.needs_push else "plain")
        if kind == "dpush":
            return None
        if kind == "dfix" or kind.startswith("dpull") or kind == "delay":
            t = spec_with_delay(ada, kind, t)
        if kind in PUSH_BASED_KINDS or kind == "push_based":
            # a push-based adapter serves from a buffer filled at the source's push times: it can
            # serve t only if the source has pushed at or beyond t, whatever sits further upstream
            return t
    return t


def spec_lag_conditions(w, comp, t):
    """[(source time component, condition 'source still lacks data needed for a pull at t')] --
    conditions are symbolic (no forking)."""
    res = []
    for l in w["links"]:
        if w["comps"][l["dst"]] is not comp:
            continue
        tr = link_request(l, t)
        if tr is None:
            continue
        src = w["comps"][l["src"]]
        if isinstance(src, ITimeComponent):
            res.append((src, src.outputs[l["out"]].time < tr, l))
        else:
            res.extend(spec_lag_conditions(w, src, tr))
    return res


def delay_before_push_based(link):
    """True if a time-shifting adapter sits on the source side of a push-based adapter on this link"""
    seen_delay = False
    for kind in link.get("kinds", []):  # source side first
        if kind == "dfix" or kind.startswith("dpull") or kind == "dpush":
            seen_delay = True
        elif kind in PUSH_BASED_KINDS and seen_delay:
            return True
    return False


def spec_lagging(w, comp, t):
    """Source time-components that (per the specification) still lack data that
    ``comp`` needs for a pull at ``t``.  Forks on the symbolic comparisons."""
    res = []
    for l in w["links"]:
        if w["comps"][l["dst"]] is not comp:
            continue
        tr = link_request(l, t)
        if tr is None:
            continue
        src = w["comps"][l["src"]]
        if isinstance(src, ITimeComponent):
            out = src.outputs[l["out"]]
            if bool(out.time < tr):
                res.append(src)
        else:
            res.extend(spec_lagging(w, src, tr))
    return res


# ----------------------------------------------------------------------------
# the run harness
# ----------------------------------------------------------------------------
class RunMonitor:
    def __init__(self, ctx, w, props, max_updates):
        self.ctx, self.w, self.props = ctx, w, props
        self.max_updates = max_updates
        self.updates = []  # (comp name, time after)
        self.top = None
        self.in_update = None
        self.owned = {}
        for c in w["comps"].values():
            for o in c.outputs.values():
                self.owned[id(o)] = c
        self.finalized = {}
        self.updates_after_all_done = 0
        self.end = None
        self.src_requests = []  # (output owner, out name, time) during updates
        self.max_depth = 0
        self.depth = 0

    # -- hooks --
    def on_update(self, comp):
        ctx, w = self.ctx, self.w
        self.updates.append((comp.name, comp.time))
        if len(self.updates) > self.max_updates:
            ctx.cut("max-updates")
        self.in_update = comp

    def before_update_recursive(self, spy, composition, comp, chain=None, target_time=None):
        self.depth += 1
        self.max_depth = max(self.max_depth, self.depth)
        if not chain:
            self.top = comp
            if "C02" in self.props:
                for c in self.w["listed"]:
                    if isinstance(c, ITimeComponent) and c is not comp:
                        self.ctx.check(comp.time <= c.time, "C02:least-advanced-first", {"sig": "top"})
            if "C03" in self.props and self.end is not None:
                # an iteration is only started while somebody is still behind the end time
                pass

    def after_update_recursive(self, spy, composition, a, k, r, e):
        self.depth -= 1

    def before_comp_update(self, spy, comp):
        """Entry of IComponent.update: the driver decided to advance ``comp``."""
        ctx, w = self.ctx, self.w
        if not isinstance(comp, ITimeComponent):
            return
        t = comp.next_time
        self.expected = {}
        if "C02" in self.props or "C13" in self.props or "C20" in self.props:
            self._expect_requests(comp, t)
        if "C01" in self.props:
            # PC ∧ 'some source still lags' must be unsat at the moment the driver advances comp
            for src, cond, l in spec_lag_conditions(w, comp, t):
                sig = "driver:delay-before-push-based" if delay_before_push_based(l) else "driver"
                ctx.check(symx.neg(cond), "C01:updated-before-input-available",
                          {"sig": sig, "comp": comp.name, "lagging": src.name})
        if "C02" in self.props:
            if not self._chain_ok(self.top, comp, 0):
                ctx.fail("C02:update-not-needed", {"sig": "chain", "comp": comp.name,
                                                   "top": self.top.name})
        if "C03" in self.props and self.end is not None and len(self.updates) > 0:
            # with end > start: no update once all time components reached the end time
            alld = True
            for c in w["listed"]:
                if isinstance(c, ITimeComponent):
                    if bool(c.time < self.end):
                        alld = False
                        break
            if alld:
                ctx.check(self.end <= w["base"], "C03:update-after-all-reached-end", {"sig": "late"})

    def _expect_requests(self, comp, t):
        """times that must reach component-owned source outputs while ``comp`` updates"""
        w = self.w
        for l in w["links"]:
            if w["comps"][l["dst"]] is not comp:
                continue
            kinds = l.get("kinds") or [None] * len(l["adapters"])
            if any((k in PUSH_BASED_KINDS) if k is not None else isinstance(a, TimeCachingAdapter)
                   for a, k in zip(l["adapters"], kinds)):
                continue  # served from the adapter's buffer, the source is not asked now
            tr = t
            for ada, kind in zip(reversed(l["adapters"]), reversed(kinds)):
                if kind is not None and (kind == "dfix" or kind.startswith("dpull")):
                    tr = spec_with_delay(ada, kind, tr)
                elif kind == "dpush":
                    # documented: min(t, newest publication); the newest publication is the source output's time
                    newest = w["comps"][l["src"]].outputs[l["out"]].time
                    tr = newest if bool(tr > newest) else tr
                elif kind is None and isinstance(ada, ITimeDelayAdapter):
                    tr = ada.with_delay(tr)
            src = w["comps"][l["src"]]
            self.expected.setdefault(id(src.outputs[l["out"]]), []).append(tr)
            if not isinstance(src, ITimeComponent):
                self._expect_requests(src, tr)

    def _chain_ok(self, cur, target, depth):
        if depth > 8:
            return False
        if cur is target:
            return True
        t = cur.next_time if isinstance(cur, ITimeComponent) else None
        return self._chain_from(cur, t, target, depth)

    def _chain_from(self, cur, t, target, depth):
        w = self.w
        for l in w["links"]:
            if w["comps"][l["dst"]] is not cur:
                continue
            tr = link_request(l, t)
            if tr is None:
                continue
            src = w["comps"][l["src"]]
            if isinstance(src, ITimeComponent):
                if bool(src.outputs[l["out"]].time < tr):
                    if self._chain_ok(src, target, depth + 1):
                        return True
            else:
                if self._chain_from(src, tr, target, depth + 1):
                    return True
        return False

    def before_get_data(self, spy, out, time, target):
        ctx = self.ctx
        owner = self.owned.get(id(out))
        if owner is None or isinstance(out, CallbackOutput) or out.is_static:
            return
        if self.in_update is None:
            return
        self.src_requests.append((owner.name, out.name, time))
        exp = getattr(self, "expected", {}).get(id(out))
        if exp:
            e0 = exp.pop(0)
            lab = "C13:request-differs-from-shifted-time" if "C13" in self.props else (
                "C20:own-pull-differs-from-request" if "C20" in self.props and "C02" not in self.props
                else "C02:request-differs-from-scheduled-time")
            ctx.check(ctx.eq(time, e0), lab, {"sig": "request", "out": owner.name})
        if "C01" in self.props and len(out.data) > 0:
            ctx.check(out.data[-1][0] >= time, "C01:request-beyond-newest-publication",
                      {"sig": "extrapolate", "out": owner.name})
            ctx.check(out.data[0][0] <= time, "C01:request-before-oldest-retained",
                      {"sig": "dropped", "out": owner.name})

    def before_cb_get_data(self, spy, out, time, target):
        """a pull-based output is asked: must be exactly the consumer's (shifted) request time"""
        if self.in_update is None or "C20" not in self.props:
            return
        exp = getattr(self, "expected", {}).get(id(out))
        if exp:
            e0 = exp.pop(0)
            self.ctx.check(self.ctx.eq(time, e0), "C20:provider-invoked-for-other-time", {"sig": "provider"})
            self.ctx.cover("provider-asked")
        owner = self.owned.get(id(out))
        if isinstance(owner, HPull):
            self._cb_before = (id(out), len(owner.requests))

    def after_cb_get_data(self, spy, out, a, k, r, e):
        """the provider itself (the component's callback, not only the output slot) ran for exactly this request"""
        if self.in_update is None or "C20" not in self.props or e is not None:
            return
        owner = self.owned.get(id(out))
        mark = getattr(self, "_cb_before", None)
        if not isinstance(owner, HPull) or mark is None or mark[0] != id(out):
            return
        time = a[0] if a else k.get("time")
        ran = len(owner.requests) == mark[1] + 1
        if not ran:
            self.ctx.fail("C20:provider-not-invoked-for-the-request", {"sig": "provider-skipped", "out": owner.name})
        else:
            self.ctx.check(self.ctx.eq(owner.requests[-1][1], time), "C20:provider-invoked-for-other-time",
                           {"sig": "provider"})

    def after_finalize(self, spy, ada, a, k, r, e):
        self.finalized[id(ada)] = self.finalized.get(id(ada), 0) + 1


def h_run(ctx):
    """Real Composition.run on a topology with symbolic starts, steps, delays and end."""
    p = ctx.params
    props = set(p["props"])
    topo = p["topo"]
    hlib.reset_finam_state()
    w = build(ctx, topo)
    comps = w["comps"]
    mon = RunMonitor(ctx, w, props, p.get("max_updates", 4))
    for c in comps.values():
        if isinstance(c, HComp):
            c.on_update = mon.on_update
    # end time: symbolic offset from the composition start
    e = ctx.td("e", lo_us=p.get("end_lo_us", 0))
    end = w["base"] + e
    mon.end = end
    expect = p.get("expect", "ok")
    # constraints on delays (C04: every cycle carries enough delay)
    if p.get("delay_sum_ge_steps"):
        assume_delays_cover_steps(ctx, w)
    if p["topo"].get("delays_le_steps"):
        assume_delays_le_steps(ctx, w)

    composition = w["composition"]
    outcome = "ok"
    import sys as _sys
    old_limit = _sys.getrecursionlimit()
    _sys.setrecursionlimit(min(old_limit, 450))  # a runaway recursion of the driver is reported quickly
    with hlib.Spy() as spy:
        spy.wrap(fm.Composition, "_update_recursive", before=mon.before_update_recursive,
                 after=mon.after_update_recursive)
        spy.wrap(fm.Component, "update", before=mon.before_comp_update)
        spy.wrap(Output, "get_data", before=mon.before_get_data)
        spy.wrap(CallbackOutput, "get_data", before=mon.before_cb_get_data, after=mon.after_cb_get_data)
        spy.wrap(Adapter, "finalize", after=mon.after_finalize)
        try:
            if p.get("vary_connect") and ctx.flag("explicit_connect"):
                composition.connect()  # user calls connect() first, run() must then skip it
            composition.run(end_time=end)
        except FinamCircularCouplingError:
            outcome = "circular"
        except (FinamTimeError, FinamNoDataError) as ex:
            outcome = "data-error:" + type(ex).__name__
        except RecursionError:
            outcome = "recursion"
        except (symx.PathAbort, symx.SymbolicLeak, symx.HarnessError):
            raise
        except Exception as ex:  # pylint: disable=broad-except
            outcome = "error:" + type(ex).__name__
            ctx.log("error-text", type(ex).__name__)
        finally:
            _sys.setrecursionlimit(old_limit)
    ctx.log("outcome", outcome)
    ctx.log("updates", [n for n, _ in mon.updates])
    ctx.log("update_times", [t for _, t in mon.updates])
    ctx.cover("outcome:" + outcome.split(":")[0])

    if expect in ("cycle-error", "cycle-or-clean"):
        ok = outcome == "circular" or (expect == "cycle-or-clean" and outcome == "ok")
        if not ok:
            ctx.fail("C04:unresolved-cycle-not-reported", {"sig": outcome})
        ctx.check(mon.max_depth <= len(comps) + 1, "C04:recursion-depth")
        return
    if outcome != "ok":
        lab = {"C01": "C01:run-failed", "C02": "C02:run-failed", "C03": "C03:run-failed",
               "C04": "C04:delay-resolved-cycle-failed", "C20": "C20:run-failed",
               "C13": "C13:run-failed"}
        for pr in sorted(props):
            if pr in lab:
                ctx.fail(lab[pr], {"sig": outcome})
                break
        return
    ctx.cover("completed")
    if len(mon.updates) > 0:
        ctx.cover("updated")
    if "C03" in props:
        for c in comps.values():
            if isinstance(c, ITimeComponent):
                if getattr(c, "finish_after", None) is None or c.k < c.finish_after:
                    ctx.check(c.time >= end, "C03:component-short-of-end-time", {"sig": c.name})
                else:
                    ctx.check(c.k == c.finish_after, "C03:finished-component-updated-again", {"sig": c.name})
                    ctx.cover("finished-early")
                ts = c.update_times
                for a, b in zip(ts, ts[1:]):
                    ctx.check(a < b, "C03:time-not-increasing")
            word = c.calls
            ok = (len(word) >= 4 and word[0] == "initialize" and word[-1] == "finalize"
                  and "validate" in word)
            if ok:
                iv = word.index("validate")
                ok = (iv >= 2 and all(x == "connect" for x in word[1:iv])
                      and all(x == "update" for x in word[iv + 1:-1]))
            ctx.check(ok, "C03:life-cycle-order", {"sig": c.name, "word": " ".join(word)})
            ctx.check(c.status == ComponentStatus.FINALIZED, "C03:not-finalized")
        for l in w["links"]:
            for ada in l["adapters"]:
                ctx.check(mon.finalized.get(id(ada), 0) == 1, "C03:adapter-finalized-once",
                          {"sig": type(ada).__name__})
    if "C13" in props or "C20" in props:
        _check_requests(ctx, w, mon, props)


def _check_requests(ctx, w, mon, props):
    """Pull-based components are asked for exactly the consumer's time and pull their
    own inputs for that same time."""
    for c in w["comps"].values():
        if isinstance(c, HPull):
            for (_o, t, used) in c.requests:
                for u in used:
                    ctx.check(ctx.eq(u, t), "C20:pull-based-own-pull-time")


# ----------------------------------------------------------------------------
# one scheduling step from an arbitrary (symbolic) state
# ----------------------------------------------------------------------------
def assume_delays_cover_steps(ctx, w):
    """C04's precondition: combined delay >= sum of the largest steps of the components"""
    tot = None
    for d in w["delays"]:
        tot = d if tot is None else tot + d
    # a delay-to-pull adapter in front of a time component delays by at least n of its (smallest) steps
    for l in w["links"]:
        dst = w["comps"][l["dst"]]
        for ada in l["adapters"]:
            if isinstance(getattr(ada, "_vf_spec", None), tuple) and isinstance(dst, HComp):
                n, extra = ada._vf_spec
                m = dst.steps[0]
                for s_ in dst.steps[1:]:
                    m = s_ if bool(s_ < m) else m
                d = extra
                for _ in range(n):
                    d = d + m
                tot = d if tot is None else tot + d
    need = None
    for c in w["comps"].values():
        if isinstance(c, HComp):
            m = c.steps[0]
            for s in c.steps[1:]:
                m = s if bool(s > m) else m
            need = m if need is None else need + m
    if w["topo"].get("covers"):
        # rings sharing adapters: per cycle, the delays on it (indices in creation order) cover its components' steps
        def mx(c):
            m = c.steps[0]
            for s_ in c.steps[1:]:
                m = s_ if bool(s_ > m) else m
            return m
        for didx, names in w["topo"]["covers"]:
            lhs = None
            for i in didx:
                lhs = w["delays"][i] if lhs is None else lhs + w["delays"][i]
            rhs = None
            for n_ in names:
                rhs = mx(w["comps"][n_]) if rhs is None else rhs + mx(w["comps"][n_])
            ctx.assume(lhs >= rhs)
        return
    ctx.assume(tot >= need)


def assume_delays_le_steps(ctx, w):
    """every fixed delay is at most every step (requests through differently delayed links of one consumer then
    reach a shared source in non-decreasing order)"""
    for d in w["delays"]:
        for c in w["comps"].values():
            if isinstance(c, HComp):
                for s_ in c.steps:
                    ctx.assume(d <= s_)


class _StopStep(Exception):
    pass


def h_step(ctx):
    """Connect for real, then overwrite the state the driver reads (component times, newest
    publication times, delay-adapter memories) with symbolic values and let the real run loop
    perform ONE scheduling step.  The C01/C02 oracles of RunMonitor are evaluated at the entry of
    the update the driver decides on.  Covers runs of any length as far as the driver's decision
    is concerned (the decision is a function of exactly this state)."""
    p = ctx.params
    props = set(p["props"])
    hlib.reset_finam_state()
    w = build(ctx, p["topo"])
    comps = w["comps"]
    composition = w["composition"]
    if p.get("delay_sum_ge_steps"):
        assume_delays_cover_steps(ctx, w)
    if p["topo"].get("delays_le_steps"):
        assume_delays_le_steps(ctx, w)
    composition.connect(w["base"])
    mon = RunMonitor(ctx, w, props, 10**9)
    mon.end = None
    # ---- inject an arbitrary state ----
    for c in comps.values():
        if isinstance(c, HComp):
            c._time = w["base"] + ctx.td("T_" + c.name, lo_us=0)
            ctx.assume(c._time >= c.start)
            if len(c.steps) > 1:
                c.k = ctx.choice("k_" + c.name, len(c.steps))
            for o in c.outputs.values():
                o._time = c._time  # harness components publish at every update
    for l in w["links"]:
        consumer = comps[l["dst"]]
        for pos, ada in enumerate(l["adapters"]):
            if isinstance(ada, fm.adapters.DelayToPull):
                n = ada.steps
                mem = []
                prev = ada.initial_time
                for j in range(ctx.choice(f"npulls_{l['idx']}_{pos}", n) + 1):
                    t = ctx.dt(f"pull_{l['idx']}_{pos}_{j}")
                    ctx.assume(t >= prev)
                    prev = t
                    mem.append(t)
                ada._pulls = mem
                ada._vf_hist = [mem[0]] * (n - len(mem)) + mem
                kinds_after = (l.get("kinds") or [])[pos + 1:]
                if isinstance(consumer, HComp) and not any(
                        k == "dfix" or k.startswith("dpull") or k == "dpush" for k in kinds_after):
                    # invariant of reachable memories: the pulls are the consumer's own update times (it pulls
                    # every input at every update) -- the newest is its current time, consecutive ones are at
                    # least its smallest step apart; only the oldest entry may be the initial-time seed
                    ms = consumer.steps[0]
                    for s_ in consumer.steps[1:]:
                        ms = s_ if bool(s_ < ms) else ms
                    if len(mem) < n:
                        ctx.assume(mem[0] == ada.initial_time)  # not yet trimmed: still starts with the seed
                    seed_only = (mem[0] == ada.initial_time) if len(mem) == 1 else False
                    if len(mem) == 1 and bool(seed_only):
                        ctx.assume(consumer._time == consumer.start)
                    else:
                        ctx.assume(mem[-1] == consumer._time)
                        for j in range(len(mem) - 1):
                            gap_ok = (mem[j + 1] - mem[j]) >= ms
                            if j == 0:
                                gap_ok = gap_ok | (mem[0] == ada.initial_time)
                            ctx.assume(gap_ok)
            elif isinstance(ada, fm.adapters.DelayToPush):
                src = comps[l["src"]]
                if isinstance(src, ITimeComponent):
                    ada.push_time = src._time

    def on_update(comp):
        raise _StopStep()

    for c in comps.values():
        if isinstance(c, HComp):
            c.on_update = on_update
    outcome = "stepped"
    with hlib.Spy() as spy:
        spy.wrap(fm.Composition, "_update_recursive", before=mon.before_update_recursive,
                 after=mon.after_update_recursive)
        spy.wrap(fm.Component, "update", before=mon.before_comp_update)
        try:
            composition.run(end_time=w["base"] + ctx.td("e", lo_us=0))
            outcome = "no-update"
        except _StopStep:
            pass
        except FinamCircularCouplingError:
            outcome = "circular"
    ctx.log("outcome", outcome)
    ctx.cover("outcome:" + outcome)
    if outcome == "circular" and p.get("delay_sum_ge_steps"):
        ctx.fail("C04:delay-resolved-cycle-reported-circular", {"sig": "step"})
    if outcome == "no-update":
        ctx.fail("C03:run-loop-without-update", {"sig": "step"})


# ----------------------------------------------------------------------------
# C05: order independence (product harness)
# ----------------------------------------------------------------------------
def _one_run(ctx, topo, end_us, max_updates, hard_cap):
    w = build(ctx, topo)
    count = [0]

    def on_update(comp):
        count[0] += 1
        if count[0] > max_updates:
            if hard_cap:
                raise _TooMany()
            ctx.cut("max-updates")

    for c in w["comps"].values():
        if isinstance(c, HComp):
            c.on_update = on_update
    end = w["base"] + end_us
    outcome = "ok"
    try:
        w["composition"].run(end_time=end)
    except _TooMany:
        outcome = "more-updates"
    except (symx.PathAbort, symx.SymbolicLeak, symx.HarnessError):
        raise
    except Exception as ex:  # pylint: disable=broad-except
        outcome = type(ex).__name__
    return w, outcome


class _TooMany(Exception):
    pass


def h_order(ctx):
    """Same scenario in reference order and under a permutation of listing / linking order."""
    p = ctx.params
    topo = p["topo"]
    hlib.reset_finam_state()
    # end strictly after the composition start: with end <= start run() still performs its one
    # unconditional update of the first least-advanced component, a degenerate case outside C05's domain
    e = ctx.td("e", lo_us=1)
    ref, o_ref = _one_run(ctx, topo, e, p["max_updates"], False)
    if p.get("delay_sum_ge_steps"):
        pass
    var = dict(topo)
    var["order"] = p["order"]
    var["link_order"] = p["link_order"]
    hlib.reset_finam_state()
    alt, o_alt = _one_run(ctx, var, e, p["max_updates"] + 2, True)
    ctx.log("outcomes", [o_ref, o_alt])
    ctx.cover("ref:" + ("ok" if o_ref == "ok" else "error"))
    sig = f"order={p['order']},links={p['link_order']}"
    if o_ref != o_alt:
        ctx.fail("outcome-depends-on-order", {"sig": sig, "ref": o_ref, "alt": o_alt})
        return
    if o_ref != "ok":
        return
    for n, c in ref["comps"].items():
        d = alt["comps"][n]
        if isinstance(c, ITimeComponent):
            ctx.check(ctx.eq(c.time, d.time), "final-time-depends-on-order", {"sig": sig, "comp": n})
        for iname, inp in c.inputs.items():
            i2 = d.inputs[iname]
            same = (inp.info == i2.info)
            ctx.check(bool(same), "metadata-depends-on-order", {"sig": sig})
            if inp.info.time is not None or i2.info.time is not None:
                ctx.check(ctx.eq(inp.info.time, i2.info.time), "metadata-time-depends-on-order", {"sig": sig})
        if isinstance(c, HComp):
            if len(c.received) != len(d.received):
                ctx.fail("received-series-length-depends-on-order", {"sig": sig, "comp": n})
                continue
            for (k1, n1, t1, v1), (k2, n2, t2, v2) in zip(c.received, d.received):
                ctx.check(k1 == k2 and n1 == n2, "received-series-order")
                ctx.check(ctx.eq(t1, t2), "request-time-depends-on-order", {"sig": sig, "comp": n})
                ctx.check(ctx.eq(hlib.scalar_of(v1), hlib.scalar_of(v2)),
                          "received-value-depends-on-order", {"sig": sig, "comp": n})


# ----------------------------------------------------------------------------
# family tables
# ----------------------------------------------------------------------------
def run_family(prop, name, topo, max_updates, props=None, **extra):
    must = extra.pop("must_cover_labels", None)
    params = {"props": sorted(props or [prop]), "topo": topo, "max_updates": max_updates}
    params.update(extra)
    if must is not None:
        extra["must_cover_labels"] = must
    ncomp = len(topo["comps"])
    return dict(
        name=f"run:{name}", ref="vf.sched:h_run", params=params,
        bounds=f"topology {name} ({ncomp} components, links "
               f"{[(l['src'], l['dst'], l.get('ada', [])) for l in topo['links']]}, listing order "
               f"{topo.get('order', 'as given')}); symbolic start offsets >= 0 (one is 0), symbolic steps >= 1 us"
               f"{' (2-cycle of steps where nsteps=2)' if any(c.get('nsteps') for c in topo['comps']) else ''}, "
               f"symbolic delays >= 0, symbolic end time; runs with more than {max_updates} updates in total are "
               f"cut (counted as paths_cut_by_bound) and outside the claim",
        must_cover=extra.get("must_cover_labels", ["outcome:ok"] if extra.get("expect", "ok") == "ok"
                             else ["outcome:circular"]),
        max_wall_s=extra.get("max_wall_s", 1800),
    )


def spec_delay_before_push(topo):
    for l in topo["links"]:
        seen = False
        for k in l.get("ada", []):
            if k == "dfix" or k.startswith("dpull") or k == "dpush":
                seen = True
            elif k in PUSH_BASED_KINDS and seen:
                return True
    return False


def step_family(prop, name, topo, props=None, **extra):
    topo = dict(topo)
    if spec_delay_before_push(topo):
        # known finding (DESIGN.md section 9): with a later-starting producer this ordering already fails in
        # connect(); equal starts isolate the scheduling part
        topo["offsets"] = False
    if len(topo["comps"]) <= 4:
        topo["order"] = "choice"  # every listing order
    params = {"props": sorted(props or [prop]), "topo": topo}
    params.update(extra)
    return dict(
        name=f"step:{name}", ref="vf.sched:h_step", params=params,
        bounds=f"topology {name} ({'every listing order' if topo.get('order') == 'choice' else 'listing order as given'}): "
               f"ONE scheduling step of the real run loop from an arbitrary state: every component time "
               f"(>= its start), symbolic steps, delays, DelayToPull memories (non-decreasing) are unbounded symbolic "
               f"values; outputs have published up to their component's time; no bound on how long the run has lasted",
        must_cover=["outcome:stepped"], max_wall_s=1800)


RUN_FUNCTIONS_NOTE = (
    "Real code executed symbolically: Composition.__init__/connect/run/_update_recursive/_connect_components/"
    "_finalize_components, schedule._find_dependencies, Component.connect/update/finalize, ConnectHelper.connect, "
    "Output.push_data/get_data/_interpolate/_clear_data, Input.pull_data, Adapter.get_data, TimeDelayAdapter.get_data, "
    "DelayFixed/DelayToPull/DelayToPush.with_delay, TimeCachingAdapter._source_updated/_get_data (list in "
    "functions_encoded is traced from one path per family). The shifts of DelayFixed/DelayToPull used by the oracles are "
    "computed by the harness from the adapters' creation parameters and its own record of the pulls through them "
    "(sched.spec_with_delay), not by the adapters' with_delay."
)
