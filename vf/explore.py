"""Work-list exploration of a symx harness over many processes."""
from __future__ import annotations

import importlib
import math
import multiprocessing as mp
import os
import random
import signal
import time

from . import symx


def load(ref):
    mod, fn = ref.split(":")
    return getattr(importlib.import_module(mod), fn)


def _logs_equal(a, b, tol=1e-7):
    if len(a) != len(b):
        return False, f"log length {len(a)} (symbolic) vs {len(b)} (concrete)"
    for (ka, va), (kb, vb) in zip(a, b):
        if ka != kb:
            return False, f"log key {ka!r} vs {kb!r}"
        if not _val_equal(va, vb, tol):
            return False, f"log {ka!r}: symbolic {va!r} vs concrete {vb!r}"
    return True, None


def _val_equal(a, b, tol):
    if isinstance(a, (list, tuple)) and isinstance(b, (list, tuple)):
        return len(a) == len(b) and all(_val_equal(x, y, tol) for x, y in zip(a, b))
    if isinstance(a, bool) or isinstance(b, bool) or a is None or b is None or isinstance(a, str):
        return a == b
    if isinstance(a, (int, float)) and isinstance(b, (int, float)):
        if isinstance(a, int) and isinstance(b, int):
            return a == b
        if math.isnan(a) or math.isnan(b):
            return math.isnan(a) and math.isnan(b)
        return abs(a - b) <= tol * max(1.0, abs(a), abs(b))
    return a == b


PATH_TIMEOUT_S = 600


def _on_alarm(_signum, _frame):
    raise symx.PathTimeout(f"a single path ran longer than {PATH_TIMEOUT_S} s")


class _PathClock:
    """wall-clock limit for one execution of the harness (a mutated tree may loop forever)"""

    def __enter__(self):
        try:
            self.old = signal.signal(signal.SIGALRM, _on_alarm)
            signal.setitimer(signal.ITIMER_REAL, PATH_TIMEOUT_S)
        except ValueError:  # not in the main thread
            self.old = None
        return self

    def __exit__(self, *exc):
        if self.old is not None:
            signal.setitimer(signal.ITIMER_REAL, 0)
            signal.signal(signal.SIGALRM, self.old)
        return False


def _work(task):
    """Explore the subtree below ``prefix`` depth-first for a bounded time."""
    (ref, params, prefix, budget_paths, budget_s, opts) = task
    harness = load(ref)
    stack = [prefix]
    out = []
    t0 = time.perf_counter()
    n = 0
    while stack and n < budget_paths and (time.perf_counter() - t0) < budget_s:
        p = stack.pop()
        try:
            with _PathClock():
                r = symx.run_path(
                    harness, params, p,
                    time_sort=opts["time_sort"], query_timeout_ms=opts["query_timeout_ms"],
                    max_decisions=opts["max_decisions"], isolate_checks=opts.get("isolate_checks", False),
                )
        except (KeyboardInterrupt, SystemExit):
            raise
        except BaseException as e:  # pylint: disable=broad-except
            # must not kill the worker: a lost task would stall the pool
            n += 1
            out.append({
                "status": "error", "reason": None,
                "error": f"exception escaped run_path: {type(e).__name__}: {e}",
                "violations": [], "n_queries": 0, "solver_s": 0.0, "n_oblig": 0, "n_discharged": 0,
                "n_unknown": 0, "unknown_labels": [], "covered": [], "n_decisions": len(p),
                "inconclusive_branches": 0, "inputs": None, "validated": None, "val_error": None, "logs": None})
            continue
        n += 1
        stack.extend(r.new_prefixes)
        rec = {
            "status": r.status, "reason": r.reason, "error": r.error,
            "violations": r.violations, "n_queries": r.n_queries, "solver_s": r.solver_s,
            "n_oblig": r.n_oblig, "n_discharged": r.n_discharged, "n_unknown": r.n_unknown,
            "unknown_labels": r.unknown_labels[:5],
            "covered": sorted(r.covered), "n_decisions": r.n_decisions,
            "inconclusive_branches": r.inconclusive_branches,
            "inputs": r.inputs, "validated": None, "val_error": None,
            "logs": None,
        }
        if r.status == "done" and opts["validate"] and opts["validate_filter"](p):
            try:
                with _PathClock():
                    c = symx.run_concrete(harness, params, r.inputs, time_sort=opts["time_sort"])
            except (KeyboardInterrupt, SystemExit):
                raise
            except BaseException as e:  # pylint: disable=broad-except
                c = {"status": "error", "error": f"{type(e).__name__}: {e}", "failed": [], "logs": []}
            if c["status"] != "done":
                rec["validated"] = False
                rec["val_error"] = f"concrete run ended with {c['status']}: {c['error']}"
            elif c["failed"] and not r.violations:
                rec["validated"] = False
                rec["val_error"] = f"concrete run fails checks {c['failed'][:3]} that were discharged symbolically"
            else:
                ok, why = _logs_equal(r.logs_eval, c["logs"])
                rec["validated"] = ok
                rec["val_error"] = why
        if opts.get("keep_logs"):
            rec["logs"] = r.logs_eval
        out.append(rec)
    return out, stack


def _always(_p):
    return True


class Report:
    def __init__(self):
        self.paths = 0
        self.done = 0
        self.nontrivial = 0
        self.aborts = {}
        self.errors = []
        self.violations = []
        self.queries = 0
        self.solver_s = 0.0
        self.oblig = 0
        self.discharged = 0
        self.unknown = 0
        self.unknown_labels = {}
        self.covered = set()
        self.validated = 0
        self.val_errors = []
        self.inconclusive_branches = 0
        self.complete = False
        self.capped = None
        self.samples = []
        self.wall_s = 0.0
        self.max_decisions = 0

    def merge_rec(self, rec):
        self.paths += 1
        self.max_decisions = max(self.max_decisions, rec["n_decisions"])
        if rec["status"] == "done":
            self.done += 1
            if rec["n_oblig"] > 0:
                self.nontrivial += 1
        elif rec["status"] == "abort":
            self.aborts[rec["reason"]] = self.aborts.get(rec["reason"], 0) + 1
        else:
            if len(self.errors) < 20:
                self.errors.append(rec["error"])
            else:
                self.errors.append(None)
        self.violations.extend(rec["violations"])
        self.queries += rec["n_queries"]
        self.solver_s += rec["solver_s"]
        self.oblig += rec["n_oblig"]
        self.discharged += rec["n_discharged"]
        self.unknown += rec["n_unknown"]
        for lab in rec["unknown_labels"]:
            self.unknown_labels[lab] = self.unknown_labels.get(lab, 0) + 1
        self.covered.update(rec["covered"])
        self.inconclusive_branches += rec["inconclusive_branches"]
        if rec["validated"] is True:
            self.validated += 1
        elif rec["validated"] is False:
            self.val_errors.append(rec["val_error"])
        if rec["status"] == "done" and len(self.samples) < 3 and rec["inputs"]:
            self.samples.append({"inputs": rec["inputs"], "decisions": rec["n_decisions"]})


def explore(ref, params=None, *, workers=None, max_paths=200000, max_wall_s=600,
            validate=True, time_sort="int", query_timeout_ms=30000, max_decisions=4000,
            seed=0, batch_paths=25, batch_s=2.0, stop_on_violation=False, isolate_checks=False):
    """Explore all paths of a harness.  Returns a Report; ``complete`` is True only
    if the work list ran empty with no cap hit, no error and no inconclusive branch."""
    workers = workers or min(16, os.cpu_count() or 1)
    rep = Report()
    t0 = time.perf_counter()
    rng = random.Random(seed)
    opts = {
        "time_sort": time_sort, "query_timeout_ms": query_timeout_ms,
        "max_decisions": max_decisions, "validate": bool(validate),
        "validate_filter": _always, "isolate_checks": isolate_checks,
    }
    pending = [[]]
    load(ref)  # import the harness (and finam) before forking so that workers share it
    ctx = mp.get_context("fork")
    if workers == 1:
        while pending:
            if rep.paths >= max_paths:
                rep.capped = "max_paths"
                break
            if time.perf_counter() - t0 > max_wall_s:
                rep.capped = "max_wall_s"
                break
            p = pending.pop()
            recs, rest = _work((ref, params, p, batch_paths, batch_s, opts))
            for r in recs:
                rep.merge_rec(r)
            pending.extend(rest)
            if stop_on_violation and rep.violations:
                rep.capped = "stopped-on-violation"
                break
    else:
        with ctx.Pool(workers, maxtasksperchild=400) as pool:
            inflight = []
            while pending or inflight:
                capped = None
                if rep.paths >= max_paths:
                    capped = "max_paths"
                elif time.perf_counter() - t0 > max_wall_s:
                    capped = "max_wall_s"
                elif stop_on_violation and rep.violations:
                    capped = "stopped-on-violation"
                if capped:
                    rep.capped = capped
                    pool.terminate()
                    break
                while pending and len(inflight) < workers * 2:
                    # small batches while the frontier is narrow so that work spreads quickly
                    narrow = len(pending) + len(inflight) < workers * 2
                    p = pending.pop(rng.randrange(len(pending)) if seed else -1)
                    bp = 3 if narrow else batch_paths
                    a_ = pool.apply_async(_work, ((ref, params, p, bp, batch_s, opts),))
                    a_.t_submit = time.perf_counter()
                    a_.prefix = p
                    inflight.append(a_)
                still = []
                progressed = False
                for a in inflight:
                    if not a.ready() and time.perf_counter() - a.t_submit > batch_s + 2 * PATH_TIMEOUT_S + 120:
                        # the worker that held this task died (its result will never arrive)
                        rep.paths += 1
                        rep.errors.append(f"task lost: a worker died while exploring below prefix of length "
                                          f"{len(a.prefix)} (subtree not explored)")
                        progressed = True
                        continue
                    if a.ready():
                        recs, rest = a.get()
                        for r in recs:
                            rep.merge_rec(r)
                        pending.extend(rest)
                        progressed = True
                    else:
                        still.append(a)
                inflight = still
                if not progressed:
                    time.sleep(0.005)
    rep.wall_s = time.perf_counter() - t0
    rep.complete = (
        rep.capped is None and not rep.errors
        and not any(k for k in rep.aborts if k in ("max-decisions",))
    )
    return rep
