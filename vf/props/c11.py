"""C11 -- time interpolation adapters equal their mathematical definition."""
from __future__ import annotations

from datetime import timedelta

import numpy as np

from .. import hlib, symx
from ..hlib import fm
from finam.errors import FinamNoDataError, FinamTimeError


def _adapter(ctx, kind):
    if kind == "next":
        return fm.adapters.NextTime(), None
    if kind == "prev":
        return fm.adapters.PreviousTime(), None
    if kind == "linear":
        return fm.adapters.LinearTime(), None
    if kind == "step":
        st = ctx.params["step_value"] if "step_value" in ctx.params else ctx.real("step", lo=0, hi=1)
        return fm.adapters.StepTime(step=st), st
    raise ValueError(kind)


def expected(ctx, kind, step, times, vals, r):
    """The definition, located path-wise by the harness' own forks (If-free terms)."""
    n = len(times)
    for i in range(n):
        if bool(r == times[i]):
            return vals[i]
    for i in range(n - 1):
        if bool(r > times[i]) and bool(r < times[i + 1]):
            if kind == "next":
                return vals[i + 1]
            if kind == "prev":
                return vals[i]
            w = (r - times[i]) / (times[i + 1] - times[i])
            if kind == "linear":
                return [a + w * (b - a) for a, b in zip(vals[i], vals[i + 1])]
            if kind == "step":
                return vals[i + 1] if bool(w > step) else vals[i]
    return None


def h_interp(ctx):
    """pattern: string of 'P' (publish) and 'R' (request) events."""
    kind, pattern = ctx.params["kind"], ctx.params["pattern"]
    gaps_c = ctx.params.get("gaps")  # concrete gaps (us) or None -> symbolic
    width = ctx.params.get("width", 1)
    hlib.reset_finam_state()
    t0 = ctx.dt("t0") if gaps_c is None else (hlib.T0 if ctx.concrete else symx.SymDT.const(hlib.T0))
    ada, step = _adapter(ctx, kind)
    out, inp = hlib.linked_pair(fm.Info(time=t0, grid=fm.NoGrid(1), units="m"), adapters=[ada])
    spill_dir = None
    if ctx.params.get("spill"):
        import tempfile
        spill_dir = tempfile.mkdtemp(prefix="vf_c11_")
        ada.memory_limit, ada.memory_location = 0, spill_dir  # every buffered entry lives in a file
    try:
        _interp_body(ctx, kind, pattern, gaps_c, width, t0, ada, step, out, inp)
    finally:
        if spill_dir is not None:
            import shutil
            shutil.rmtree(spill_dir, ignore_errors=True)


def _interp_body(ctx, kind, pattern, gaps_c, width, t0, ada, step, out, inp):
    spill = bool(ctx.params.get("spill"))
    times, vals = [], []
    prev_r = None
    ri = 0
    for ev in pattern:
        if ev == "P":
            i = len(times)
            if i == 0:
                t = t0
            elif gaps_c is not None:
                t = times[-1] + timedelta(microseconds=gaps_c[i - 1])
            else:
                t = times[-1] + ctx.td(f"g{i - 1}", lo_us=1)
            if ctx.params.get("deps"):
                # missing-value dependency sets (see hlib.Dep): one element per publication
                v = [hlib.Dep({i}) for c in range(width)]
                out.push_data(np.array(v, dtype=object), t)
            elif spill:
                # files cannot hold symbolic terms: distinct concrete values, not linear in the index
                v = [float((i + 1) ** 2 * 100 + c) for c in range(width)]
                out.push_data(np.array(v, dtype=float), t)
            else:
                v = [ctx.real(f"v{i}_{c}") for c in range(width)]
                out.push_data(np.array(v, dtype=object), t)
            times.append(t)
            vals.append(v)
            continue
        r = ctx.dt(f"r{ri}")
        if prev_r is not None:
            ctx.assume(r >= prev_r)  # not before the last SERVED request (a refused request does not count)
        try:
            d = inp.pull_data(r)
            got = list(np.asarray(d.magnitude, dtype=object).reshape(-1))
            res = "ok"
            prev_r = r
        except FinamTimeError:
            res = "time-error"
        except FinamNoDataError:
            res = "no-data"
        ctx.cover("req:" + res)
        if res != "ok":
            ctx.log(f"req{ri}", res)
            ctx.check((r < times[0]) | (r > times[-1]), "refused-inside-published-range",
                      {"sig": kind, "res": res})
        else:
            ctx.log(f"req{ri}", "ok" if ctx.params.get("deps") else got)
            ctx.check((r >= times[0]) & (r <= times[-1]), "extrapolated-outside-published-range",
                      {"sig": kind})
            exp = expected(ctx, kind, step, times, vals, r)
            if exp is not None and ctx.params.get("deps"):
                for c in range(width):
                    ok = isinstance(got[c], hlib.Dep) and got[c].deps == exp[c].deps
                    ctx.check(ok, "missing-value-dependencies-differ-from-definition",
                              {"sig": kind, "used": repr(got[c]), "definition": repr(exp[c])})
            elif exp is not None:
                for c in range(width):
                    ctx.check(ctx.eq(got[c], exp[c]), "value-differs-from-definition", {"sig": kind})
        ri += 1


def h_inductive(ctx):
    """One event from an ARBITRARY buffer state of a time-caching adapter.

    State: buffered publications t_0 < .. < t_{m-1} with symbolic values, the previous request p (or
    none), and a flag 'older entries were discarded'.  Invariant established by the real clearing rule
    (drop data[0] while data[1].t <= request):  p <= t_{m-1};  if something was discarded then
    t_0 <= p;  if m > 1 then t_1 > p.  Event: a request r >= p or a publication after t_{m-1} through the
    real Output.  Checked: the answer is the definition evaluated on the buffer (so nothing that was
    discarded could have mattered, because r >= p >= t_0), refusals only beyond the newest publication,
    and the invariant again."""
    kind = ctx.params["kind"]
    hlib.reset_finam_state()
    t0 = ctx.dt("t0")
    ada, step = _adapter(ctx, kind)
    out, inp = hlib.linked_pair(fm.Info(time=t0, grid=fm.NoGrid(1), units="m"), adapters=[ada])
    m = ctx.choice("buffered", ctx.params["max_buffered"]) + 1
    times, vals = [t0], [[ctx.real("v0")]]
    for i in range(1, m):
        times.append(times[-1] + ctx.td(f"g{i}", lo_us=1))
        vals.append([ctx.real(f"v{i}")])
    ada.data = [(t, fm.UNITS.Quantity(np.array(v, dtype=object), "m")) for t, v in zip(times, vals)]
    has_prev = ctx.flag("requested_before")
    discarded = ctx.flag("discarded") if has_prev else False
    p = None
    if has_prev:
        p = ctx.dt("p")
        ctx.assume(p <= times[-1])
        ctx.assume(p >= times[0])
        if m > 1:
            ctx.assume(times[1] > p)
    ctx.cover("state")
    if ctx.flag("event_is_publication"):
        t = times[-1] + ctx.td("g_new", lo_us=1)
        v = [ctx.real("v_new")]
        out.push_data(np.array(v, dtype=object), t)
        times.append(t)
        vals.append(v)
        ctx.cover("publish")
        buf = [bt for bt, _ in ada.data]
        ctx.check(len(buf) == len(times), "publication-not-buffered")
        for a, b in zip(buf, times):
            ctx.check(ctx.eq(a, b), "buffer-times")
        got = list(np.asarray(ada.data[-1][1].magnitude, dtype=object).reshape(-1))
        ctx.check(ctx.eq(got[0], v[0]), "buffered-value-is-not-the-publication")
        return
    r = ctx.dt("r")
    if p is not None:
        ctx.assume(r >= p)
    try:
        d = inp.pull_data(r)
        res = "ok"
    except FinamTimeError:
        res = "time-error"
    ctx.cover("req:" + res)
    if res != "ok":
        ctx.log("req", res)
        ctx.check((r > times[-1]) | (r < times[0]), "refused-inside-buffered-range", {"sig": kind})
        if discarded or has_prev:
            ctx.check(r > times[-1], "refused-because-of-discarded-entries", {"sig": kind})
        return
    got = list(np.asarray(d.magnitude, dtype=object).reshape(-1))
    ctx.log("req", got)
    ctx.check((r >= times[0]) & (r <= times[-1]), "extrapolated", {"sig": kind})
    exp = expected(ctx, kind, step, times, vals, r)
    if exp is not None:
        ctx.check(ctx.eq(got[0], exp[0]), "value-differs-from-definition", {"sig": kind + ":inductive"})
    post = [bt for bt, _ in ada.data]
    ctx.check(len(post) >= 1, "buffer-empty")
    ctx.check(post[0] <= r, "inv-discarded-entry-still-needed", {"sig": kind})
    if len(post) > 1:
        ctx.check(post[1] > r, "inv-buffer-longer-than-needed", {"sig": kind})
    for a, b in zip(post, post[1:]):
        ctx.check(a < b, "inv-times-increasing")


EXPLANATION = (
    "Bounded symbolic execution (symx proxies + z3) of the real NextTime/PreviousTime/LinearTime/StepTime adapters "
    "behind a real Output and in front of a real Input (TimeCachingAdapter._source_updated/_get_data/"
    "_clear_cached_data, *_interpolate, interpolate, interpolate_step, check_time). Publication values are symbolic "
    "reals carried in numpy object arrays, request times (and, in the sym-gaps families, the gaps) symbolic integer "
    "microseconds, the step position a symbolic real in [0,1]. The harness locates each request between publications "
    "by its own forks, builds the interpolant of the definition over ALL publications (so discarded buffer entries "
    "must not matter) and asks z3 for PC ∧ delivered ≠ definition; refusals must coincide exactly with requests "
    "outside the published range. The ':missing' families publish hlib.Dep elements (sets of publication indices "
    "propagated by the real arithmetic, also through zero weights like 0*nan) and require the delivered set to equal "
    "the set the definition uses."
)
ASSUMPTIONS = ["request times are not before the last served request (a refused request does not count)", "float interpolation arithmetic is evaluated over the reals"]


def families(tier):
    q = tier == "quick"
    fams = []
    pats_q = ["PPPRR", "PPRPR"]
    pats_t = ["PPPPRRR", "PPRPRPR", "PRPPRR", "PPPRRR"]
    for kind in ("next", "prev", "linear", "step"):
        for pat in (pats_q if q else pats_t):
            npub = pat.count("P")
            gaps = [3, 1, 5, 2][: npub - 1]
            fams.append(dict(
                name=f"{kind}:{pat}:gaps{'-'.join(map(str, gaps))}", ref="vf.props.c11:h_interp",
                params={"kind": kind, "pattern": pat, "gaps": gaps},
                bounds=f"adapter {kind}; event pattern {pat} (P publish, R request); concrete irregular gaps {gaps} us; "
                       f"symbolic values, symbolic non-decreasing request times"
                       + ("; symbolic step position in [0,1]" if kind == "step" else ""),
                must_cover=["req:ok", "req:time-error"]))
        pat = "PPPRR" if q else "PPPPRR"
        if kind == "step" and not q:
            # symbolic gaps AND symbolic step position make the branch (r - t_i) / gap > step nonlinear; z3 answered
            # 'unknown' for one path condition at 4 publications -> kept at 3 publications, where it is decided
            pat = "PPPRR"
        fams.append(dict(
            name=f"{kind}:{pat}:symgaps", ref="vf.props.c11:h_interp",
            params={"kind": kind, "pattern": pat, "gaps": None},
            bounds=f"adapter {kind}; event pattern {pat}; symbolic gaps >= 1 us, symbolic values and requests",
            must_cover=["req:ok", "req:time-error"], query_timeout_ms=20000))
    # the end points of the step-position range as plain Python numbers (what a user writes)
    for sv in ((0.0, 1.0) if q else (0.0, 1.0, 0, 1, 0.5)):
        fams.append(dict(
            name=f"step={sv!r}:PPPRR:gaps3-1", ref="vf.props.c11:h_interp",
            params={"kind": "step", "pattern": "PPPRR", "gaps": [3, 1], "step_value": sv},
            bounds=f"adapter step with the concrete step position {sv!r}; pattern PPPRR; concrete gaps [3, 1] us; symbolic "
                   f"values and request times", must_cover=["req:ok"]))
    for kind in ("next", "prev", "linear", "step"):
        pat = "PPPPRRR" if q else "PPPRPPRRR"
        fams.append(dict(
            name=f"{kind}:{pat}:missing", ref="vf.props.c11:h_interp",
            params={"kind": kind, "pattern": pat, "gaps": [3, 1, 5, 2][: pat.count("P") - 1], "deps": True},
            bounds=f"adapter {kind}; pattern {pat}; missing-value dependency sets (hlib.Dep payloads: the delivered "
                   f"value may be computed from exactly the publications the definition uses, so a nan / masked cell "
                   f"of any other publication cannot leak); symbolic request times"
                   + ("; symbolic step position" if kind == "step" else ""),
            must_cover=["req:ok"]))
    for kind in ("next", "prev", "linear", "step"):
        for pat in (["PPPRPR"] if q else ["PPPRPR", "PPRPRPR", "PPPRPRR", "PRPPRPR"]):
            fams.append(dict(
                name=f"{kind}:{pat}:spilled", ref="vf.props.c11:h_interp",
                params={"kind": kind, "pattern": pat, "gaps": [3, 1, 5, 2][: pat.count("P") - 1], "spill": True},
                bounds=f"adapter {kind} with memory limit 0 (every buffered entry in a file); pattern {pat}; concrete "
                       f"distinct values, symbolic request times", must_cover=["req:ok"], workers=4))
        fams.append(dict(
            name=f"{kind}:inductive", ref="vf.props.c11:h_inductive",
            params={"kind": kind, "max_buffered": 3 if q else 4},
            bounds=f"adapter {kind}; ONE event (request >= previous request, or publication) from an arbitrary buffer "
                   f"state with 1..{3 if q else 4} entries satisfying the clearing invariant; all times and values symbolic; "
                   f"no bound on the length of the history",
            must_cover=["state", "publish", "req:ok", "req:time-error"]))
    if not q:
        for kind in ("linear", "step", "next", "prev"):
            fams.append(dict(
                name=f"{kind}:PPPRR:width4", ref="vf.props.c11:h_interp",
                params={"kind": kind, "pattern": "PPPRR", "gaps": [3, 1], "width": 4},
                bounds=f"adapter {kind}; 4-element payload; pattern PPPRR; gaps [3,1] us",
                must_cover=["req:ok"]))
    if not q:
        from .. import chsrc
        fams.append(dict(name="crosshair:select", kind="crosshair", ref="vf.chrun:replay", src=chsrc.SELECT, params={},
                         bounds="CrossHair on NextTime/PreviousTime._interpolate, 3 publications, gaps <= 10^6 us (independent second encoding; inconclusive results are reported, not counted)",
                         per_condition_timeout=60, must_cover=["ran"]))
    return fams
