"""C20 -- static slots are time independent; pull-based components are served on demand."""
from __future__ import annotations

from datetime import timedelta

import numpy as np

from .. import hlib, sched, symx, topos
from ..hlib import fm
from finam.errors import FinamDataError, FinamNoDataError, FinamStaticDataError
from finam.sdk.output import Output


def h_static(ctx):
    m = ctx.params["requests"]
    static_in = ctx.params["static_input"]
    hlib.reset_finam_state()
    out = fm.Output(name="out", info=fm.Info(time=None, grid=fm.NoGrid(1), units="m"), static=True)
    conv = ctx.flag("input_in_km")
    inp = fm.Input(name="in", info=fm.Info(time=None, grid=None, units="km" if conv else None), static=static_in)
    out >> inp
    inp.ping()
    inp.exchange_info()
    try:
        inp.pull_data(None)
        ctx.fail("static-output-served-before-publication")
    except FinamNoDataError:
        ctx.cover("no-data-before-publication")
    spill_dir = None
    if ctx.params.get("spill"):
        import tempfile
        spill_dir = tempfile.mkdtemp(prefix="vf_c20_")
        out.memory_limit, out.memory_location = 0, spill_dir
        vals = [7.0, 11.0]  # files cannot hold symbolic terms
        out.push_data(np.array(vals), None if ctx.flag("push_time_none") else ctx.dt("tp"))
    else:
        vals = [ctx.real("v0"), ctx.real("v1")]
        out.push_data(np.array(vals, dtype=object), None if ctx.flag("push_time_none") else ctx.dt("tp"))
    try:
        _static_rest(ctx, out, inp, vals, m, static_in, conv)
    finally:
        if spill_dir is not None:
            import shutil
            out.finalize()
            shutil.rmtree(spill_dir, ignore_errors=True)


def _static_rest(ctx, out, inp, vals, m, static_in, conv):
    calls = []
    with hlib.Spy() as spy:
        spy.wrap(Output, "get_data", before=lambda s, o, *a, **k: calls.append(o is out))
        for j in range(m):
            t = None if ctx.flag(f"none{j}") else ctx.dt(f"r{j}")
            d = inp.pull_data(t)
            got = list(np.asarray(d.magnitude, dtype=object).reshape(-1))
            ctx.check(d.shape == (1, 2), "static-shape")
            ctx.check(d.units == fm.UNITS.Unit("km" if conv else "m"), "static-units", {"sig": f"pull{j}"})
            for a, b in zip(got, vals):
                ctx.check(ctx.eq(a, b / 1000 if conv else b), "static-value-changed", {"sig": f"static:pull{j}:km={conv}"})
            ctx.log(f"got{j}", got)
    if static_in:
        ctx.check(sum(calls) == 1, "static-input-fetched-more-than-once", {"sig": str(sum(calls))})
    else:
        ctx.check(sum(calls) == m, "non-static-input-on-static-output")
    try:
        out.push_data(np.array([1.0, 2.0]), None)
        ctx.fail("second-publication-accepted", {"sig": "static-push"})
    except FinamStaticDataError:
        ctx.cover("second-publication-refused")
    # still unchanged afterwards
    d = inp.pull_data(None)
    got = list(np.asarray(d.magnitude, dtype=object).reshape(-1))
    for a, b in zip(got, vals):
        ctx.check(ctx.eq(a, b / 1000 if conv else b), "static-value-changed-after-refused-push")


class Src(fm.TimeComponent):
    """publishes symbolic values/weights on several outputs each step"""

    def __init__(self, ctx, names, units, steps):
        super().__init__()
        self.ctx, self.names, self.units = ctx, names, units
        self._time = hlib.T0
        self.k = 0
        self.nsteps = steps
        self.vals = {}

    def _next_time(self):
        return self.time + hlib.DAY

    def val(self, n, k):
        key = (n, k)
        if key not in self.vals:
            self.vals[key] = self.ctx.real(f"{n}_{k}")
        return self.vals[key]

    def _initialize(self):
        for n in self.names:
            self.outputs.add(name=n, time=self.time, grid=fm.NoGrid(1), units=self.units[n])
        self.create_connector()

    def _connect(self, start_time):
        self.try_connect(start_time, push_data={n: np.array([self.val(n, 0)], dtype=object) for n in self.names})

    def _validate(self):
        pass

    def _update(self):
        self._time += hlib.DAY
        self.k += 1
        for n in self.names:
            self.outputs[n].push_data(np.array([self.val(n, self.k)], dtype=object), self.time)

    def _finalize(self):
        pass


class Sink(fm.TimeComponent):
    def __init__(self, name, step):
        super().__init__()
        self._name = name
        self._time = hlib.T0
        self.step = step
        self.got = []

    def _next_time(self):
        return self.time + self.step

    def _initialize(self):
        self.inputs.add(name="In", time=self.time, grid=None, units=None)
        self.create_connector(pull_data=["In"])

    def _connect(self, start_time):
        self.try_connect(start_time)
        if self.status == fm.ComponentStatus.CONNECTED:
            self.got.append((self.time, self.connector.in_data["In"]))

    def _validate(self):
        pass

    def _update(self):
        self._time += self.step
        self.got.append((self.time, self.inputs["In"].pull_data(self.time)))

    def _finalize(self):
        pass


def h_wsum(ctx):
    p = ctx.params
    pairs, nsinks, days = p["pairs"], p["sinks"], p["days"]
    units = p["units"]  # per pair
    hlib.reset_finam_state()
    names, u = [], {}
    for i in range(pairs):
        names += [f"v{i}", f"w{i}"]
        u[f"v{i}"] = units[i]
        u[f"w{i}"] = ""
    src = Src(ctx, names, u, days)
    ws = fm.components.WeightedSum(inputs=[f"v{i}" for i in range(pairs)])
    sinks = [Sink(f"S{j}", hlib.DAY) for j in range(nsinks)]
    comp = hlib.make_composition([src, ws] + sinks)
    for i in range(pairs):
        src.outputs[f"v{i}"] >> ws.inputs[f"v{i}"]
        src.outputs[f"w{i}"] >> ws.inputs[f"v{i}_weight"]
    for s in sinks:
        ws.outputs["WeightedSum"] >> s.inputs["In"]
    try:
        comp.run(end_time=hlib.T0 + hlib.DAY * days)
    except (symx.PathAbort, symx.SymbolicLeak, symx.HarnessError):
        raise
    except Exception as e:  # pylint: disable=broad-except
        ctx.log("exc", type(e).__name__)
        ctx.fail("weighted-sum-run-fails", {"sig": f"{type(e).__name__}:sinks={nsinks}", "error": str(e)[:200]})
        return
    ctx.cover("ran")
    base = fm.UNITS.Unit(units[0])
    for s in sinks:
        ctx.check(len(s.got) == days + 1, "sink-pull-count")
        for k, (t, d) in enumerate(s.got):
            got = hlib.scalar_of(d)
            # any unit of the inputs' common dimension is fine as long as the number is converted
            ctx.check(d.units.dimensionality == base.dimensionality, "weighted-sum-units", {"sig": str(d.units)})
            exp = 0
            for i in range(pairs):
                f = float((1.0 * fm.UNITS.Unit(units[i])).to(d.units).magnitude)
                exp = exp + src.val(f"v{i}", k) * f * src.val(f"w{i}", k)
            ctx.log(f"{s.name}_{k}", got)
            ctx.check(ctx.eq(got, exp, tol=1e-6), "weighted-sum-value", {"sig": "+".join(units)})


class GridSrc(fm.TimeComponent):
    """publishes 2x2-cell fields (symbolic value per PHYSICAL cell) on outputs with individually laid-out grids"""

    def __init__(self, ctx, names, grids, days):
        super().__init__()
        self.ctx, self.names, self.grids = ctx, names, grids
        self._time = hlib.T0
        self.k = 0
        self.vals = {}

    def _next_time(self):
        return self.time + hlib.DAY

    def phys(self, n, k):
        """values by physical cell (x index, y index along increasing coordinates)"""
        if (n, k) not in self.vals:
            self.vals[(n, k)] = [[self.ctx.real(f"{n}_{k}_{a}{b}") for b in range(2)] for a in range(2)]
        return self.vals[(n, k)]

    def field(self, n, k):
        g = self.grids[n]
        ph = self.phys(n, k)
        arr = np.empty((2, 2), dtype=object)
        for a in range(2):
            for b in range(2):
                ia = a if g.axes_increase[0] else 1 - a
                ib = b if g.axes_increase[1] else 1 - b
                arr[ia, ib] = ph[a][b]
        return arr

    def _initialize(self):
        for n in self.names:
            self.outputs.add(name=n, time=self.time, grid=self.grids[n], units="" if n.startswith("w") else "m")
        self.create_connector()

    def _connect(self, start_time):
        self.try_connect(start_time, push_data={n: self.field(n, 0) for n in self.names})

    def _validate(self):
        pass

    def _update(self):
        self._time += hlib.DAY
        self.k += 1
        for n in self.names:
            self.outputs[n].push_data(self.field(n, self.k), self.time)

    def _finalize(self):
        pass


def h_wsum_grid(ctx):
    """WeightedSum(inputs, grid=G) fed by producers on grids that are compatible with G but laid out differently:
    the delivered field (in G's layout) holds, per physical cell, the sum of value x weight."""
    hlib.reset_finam_state()
    days = ctx.params.get("days", 1)

    def lay(tag):
        return fm.UniformGrid((3, 3), axes_increase=[ctx.flag(tag + "_incx"), ctx.flag(tag + "_incy")])

    G = lay("merger")
    names = ["v0", "w0", "v1", "w1"]
    grids = {n: lay(n) for n in names}
    src = GridSrc(ctx, names, grids, days)
    ws = fm.components.WeightedSum(inputs=["v0", "v1"], grid=G)
    sink = Sink("S", hlib.DAY)
    comp = hlib.make_composition([src, ws, sink])
    for i in range(2):
        src.outputs[f"v{i}"] >> ws.inputs[f"v{i}"]
        src.outputs[f"w{i}"] >> ws.inputs[f"v{i}_weight"]
    ws.outputs["WeightedSum"] >> sink.inputs["In"]
    try:
        comp.run(end_time=hlib.T0 + hlib.DAY * days)
    except (symx.PathAbort, symx.SymbolicLeak, symx.HarnessError):
        raise
    except Exception as e:  # pylint: disable=broad-except
        ctx.log("exc", type(e).__name__)
        ctx.fail("weighted-sum-run-fails", {"sig": f"{type(e).__name__}:grid", "error": str(e)[:200]})
        return
    ctx.cover("ran")
    ginfo = sink.inputs["In"].info.grid
    ctx.check(bool(ginfo == G), "weighted-sum-grid-is-not-the-requested-grid", {"sig": "grid"})
    for k, (t, d) in enumerate(sink.got):
        m = np.asarray(d.magnitude, dtype=object)
        m = m[0] if m.ndim == 3 else m
        for a in range(2):
            for b in range(2):
                ia = a if G.axes_increase[0] else 1 - a
                ib = b if G.axes_increase[1] else 1 - b
                exp = src.phys("v0", k)[a][b] * src.phys("w0", k)[a][b] + src.phys("v1", k)[a][b] * src.phys("w1", k)[a][b]
                ctx.check(ctx.eq(m[ia, ib], exp, tol=1e-6), "weighted-sum-value-at-wrong-location",
                          {"sig": "grid", "cell": [a, b], "pull": k})
        ctx.log(f"S_{k}", m[0, 0])


EXPLANATION = (
    "Bounded symbolic execution (symx proxies + z3). (a) Static slots: real Output(static)/Input(static or not) with "
    "symbolic payload terms and a symbolic sequence of request times or None: every delivery must be term-equal to the "
    "single publication, a second publication must raise FinamStaticDataError, a static input asks its source exactly "
    "once. (b) Pull-based components: the scheduler harness of C01 (real Composition.run, symbolic starts/steps/end) on "
    "topologies where time components read through one or two pull-based components (also fan-in and fan-out at the "
    "pull-based component): z3 must refute 'time given to the provider ≠ (shifted) time requested by the consumer' and "
    "'time of its own input pulls ≠ that time', and the C01 obligations hold through it. (c) WeightedSum: the real "
    "merger between a producer publishing symbolic values and weights (pairs in different but compatible units) and one "
    "or two consumers asking for the same times: delivered term ≡ Σ value·weight in the units of the first input; "
    "with a requested merger grid and producers on compatible grids of other axis directions the sum must be formed per "
    "PHYSICAL cell and delivered in the requested layout."
)
ASSUMPTIONS = ["WeightedSum scenario uses equal daily steps so that each pull hits a publication exactly"]


def families(tier):
    q = tier == "quick"
    fams = [
        dict(name="static:static_input", ref="vf.props.c20:h_static",
             params={"requests": 3 if q else 4, "static_input": True},
             bounds="static output, static input; 3-4 requests each None or a symbolic time",
             must_cover=["no-data-before-publication", "second-publication-refused"]),
        dict(name="static:spilled", ref="vf.props.c20:h_static",
             params={"requests": 3, "static_input": False, "spill": True},
             bounds="static output with memory limit 0 (publication kept in a file), non-static input; 3 requests",
             must_cover=["no-data-before-publication", "second-publication-refused"], workers=2),
        dict(name="static:plain_input", ref="vf.props.c20:h_static",
             params={"requests": 3 if q else 4, "static_input": False},
             bounds="static output, non-static input; 3-4 requests each None or a symbolic time",
             must_cover=["no-data-before-publication", "second-publication-refused"]),
    ]
    D = topos.DAGS
    runs = [("a_p_b", 4, 6), ("a_p_b_rev", 0, 6), ("a_p_q_b", 4, 6), ("a_p_dfix_b", 3, 5),
            ("ab_p_c", 3, 4), ("a_p_bc", 3, 4), ("two_pulls_parallel", 3, 4), ("a0_a_p_b_rev", 3, 4),
            ("ab_dfix_first_p_c", 3, 4)]
    D = dict(D, **topos.PULL_DIAMONDS)
    runs += [("a_p_two_outputs_c", 3, 4), ("a_p_diamond_c", 3, 4)]
    for name, uq, ut in runs:
        u = uq if q else ut
        if u:
            f = sched.run_family("C20", name, D[name], u, props=["C20", "C01"])
            f["must_cover"] = ["outcome:ok", "provider-asked"]
            fams.append(f)
    for name in ("a_p_b", "ab_p_c", "ab_dfix_first_p_c", "a_p_dfix_b", "two_pulls_parallel"):
        fams.append(sched.step_family("C20", name, D[name], props=["C20", "C01", "C02"]))
    ws = [("one_sink", 2, 1, ["mm", "mm"]), ("two_sinks", 2, 2, ["mm", "mm"]),
          ("mixed_units", 2, 1, ["mm", "cm"])]
    if not q:
        ws += [("three_pairs_two_sinks", 3, 2, ["mm", "cm", "m"])]
    for name, pairs, sinks, units in ws:
        fams.append(dict(
            name=f"wsum:{name}", ref="vf.props.c20:h_wsum",
            params={"pairs": pairs, "sinks": sinks, "days": 2 if q else 3, "units": units},
            bounds=f"WeightedSum with {pairs} value/weight pairs in units {units}, {sinks} consumer(s), daily steps, "
                   f"symbolic values and weights",
            must_cover=["ran"]))
    fams.append(dict(
        name="wsum:grid_layouts", ref="vf.props.c20:h_wsum_grid", params={"days": 1 if q else 2},
        bounds="WeightedSum(inputs, grid=G) with 2 value/weight pairs on 2x2-cell grids; per-axis direction of G and of "
               "each of the four producer grids symbolic (compatible, differently laid out); symbolic value per physical "
               "cell; daily steps", must_cover=["ran"]))
    return fams
