"""C19 -- composition validation rejects exactly the unworkable topologies."""
from __future__ import annotations

import numpy as np
import z3

from .. import hlib, symx
from ..hlib import fm
import finam.schedule as fsched
from finam.errors import FinamConnectError
from finam.interfaces import NoBranchAdapter
from finam.sdk.output import CallbackOutput, Output
from finam.sdk.input import CallbackInput, Input


# ------------------------------------------------------------------------------------------
# (a) dead-link rule with SYMBOLIC needs_push / needs_pull flags
# ------------------------------------------------------------------------------------------
class FlagOut(Output):
    def __init__(self, name, push, pull):
        super().__init__(name=name)
        self._fp, self._fl = push, pull

    needs_push = property(lambda self: self._fp)
    needs_pull = property(lambda self: self._fl)


class FlagIn(Input):
    def __init__(self, name, push, pull):
        super().__init__(name=name)
        self._fp, self._fl = push, pull

    needs_push = property(lambda self: self._fp)
    needs_pull = property(lambda self: self._fl)


class FlagAda(fm.Adapter):
    def __init__(self, name, push, pull):
        super().__init__()
        self._name = name
        self._fp, self._fl = push, pull

    needs_push = property(lambda self: self._fp)
    needs_pull = property(lambda self: self._fl)

    def _get_data(self, time, target):
        return self.pull_data(time, target)


class Owner:
    name = "comp"

    def __str__(self):
        return "comp"


def h_deadlink(ctx):
    n = ctx.params["adapters"]
    hlib.reset_finam_state()
    flags = [(ctx.bool(f"push{i}"), ctx.bool(f"pull{i}")) for i in range(n + 2)]
    src = FlagOut("src", *flags[0])
    cur = src
    for i in range(n):
        a = FlagAda(f"a{i}", *flags[i + 1])
        cur = cur >> a
    inp = FlagIn("in", *flags[n + 1])
    cur >> inp
    try:
        fsched._check_dead_links(Owner(), inp)
        raised = False
    except FinamConnectError:
        raised = True
    ctx.cover("raised" if raised else "passed")
    ctx.log("raised", raised)
    rule = None
    for i in range(n + 2):
        for j in range(i + 1, n + 2):
            t = z3.And(symx.zbool(flags[i][1]), symx.zbool(flags[j][0]))  # pull-only source i, push-needing j after it
            rule = t if rule is None else z3.Or(rule, t)
    if ctx.concrete:
        val = any(bool(flags[i][1]) and bool(flags[j][0]) for i in range(n + 2) for j in range(i + 1, n + 2))
        ctx.check(val == raised, "dead-link-rule", {"sig": f"chain{n}"})
    else:
        ctx.check(symx.SymBool(rule if raised else z3.Not(rule)), "dead-link-rule", {"sig": f"chain{n}"})


# ------------------------------------------------------------------------------------------
# (b) real topologies through Composition.connect
# ------------------------------------------------------------------------------------------
class PullSrc(fm.Component):
    def _initialize(self):
        self.outputs.add(CallbackOutput(callback=lambda c, t: np.array([1.0]), name="o",
                                        info=fm.Info(time=None, grid=fm.NoGrid(1), units="m")))
        self.create_connector()

    def _connect(self, start_time):
        self.try_connect(start_time)

    def _validate(self):
        pass

    def _update(self):
        pass

    def _finalize(self):
        pass


class StaticSrc(fm.Component):
    def _initialize(self):
        self.outputs.add(name="o", static=True, time=None, grid=fm.NoGrid(1), units="m")
        self.create_connector()

    def _connect(self, start_time):
        self.try_connect(start_time, push_data={"o": np.array([1.0])})

    def _validate(self):
        pass

    def _update(self):
        pass

    def _finalize(self):
        pass


class TimeSrc(fm.TimeComponent):
    def __init__(self):
        super().__init__()
        self._time = hlib.T0

    def _next_time(self):
        return self.time + hlib.DAY

    def _initialize(self):
        self.outputs.add(name="o", time=self.time, grid=fm.NoGrid(1), units="m")
        self.create_connector()

    def _connect(self, start_time):
        self.try_connect(start_time, push_data={"o": np.array([1.0])})

    def _validate(self):
        pass

    def _update(self):
        self._time += hlib.DAY
        self.outputs["o"].push_data(np.array([1.0]), self.time)

    def _finalize(self):
        pass


class Sink(fm.TimeComponent):
    """kind: pull (Input, initial pull) | push (CallbackInput) | static (static Input) | static_push (static
    CallbackInput)"""

    def __init__(self, kind, n_inputs=1):
        super().__init__()
        self._time = hlib.T0
        self.kind = kind
        self.n_inputs = n_inputs

    def _next_time(self):
        return self.time + hlib.DAY

    def _initialize(self):
        for k in range(self.n_inputs):
            name = f"i{k}"
            if self.kind == "push":
                self.inputs.add(CallbackInput(callback=lambda c, t: None, name=name, time=self.time,
                                              grid=None, units=None))
            elif self.kind == "static_push":
                self.inputs.add(CallbackInput(callback=lambda c, t: None, name=name, static=True, time=None,
                                              grid=None, units=None))
            else:
                self.inputs.add(name=name, time=None if self.kind == "static" else self.time, grid=None, units=None,
                                static=self.kind == "static")
        self.create_connector(pull_data=[] if self.kind in ("push", "static_push") else list(self.inputs))

    def _connect(self, start_time):
        self.try_connect(start_time)

    def _validate(self):
        pass

    def _update(self):
        self._time += hlib.DAY

    def _finalize(self):
        pass


ADAS = ["scale", "linear", "dfix", "dpull", "dpush"]


def mk_ada(kind):
    A = fm.adapters
    return {"scale": lambda: A.Scale(1.0), "linear": A.LinearTime, "dfix": lambda: A.DelayFixed(hlib.DAY * 0),
            "dpull": A.DelayToPull, "dpush": A.DelayToPush}[kind]()


def h_validate(ctx):
    maxlen = ctx.params["max_chain"]
    hlib.reset_finam_state()
    focus = ctx.params.get("focus")
    if focus == "branching":
        # only the fan-out dimension, but longer chains
        src_kind, sink_kind = "time", "pull"
        n = ctx.choice("chain_len", maxlen + 1)
        bk = ["scale", "linear", "dpull"]
        kinds = [bk[ctx.choice(f"ada{k}", 3)] for k in range(n)]
        fan = ctx.choice("fanout_at", n + 1)
        missing, dangling, order = "none", False, 0
    else:
        src_kind = ["time", "pull", "static"][ctx.choice("src_kind", 3)]
        sink_kind = ["pull", "push", "static", "static_push"][ctx.choice("sink_kind", 4)]
        n = ctx.choice("chain_len", (1 if src_kind == "static" else maxlen) + 1)
        kinds = [ADAS[ctx.choice(f"ada{k}", 1 if src_kind == "static" else len(ADAS))] for k in range(n)]
        fan = ctx.choice("fanout_at", n + 2)  # n+1 = no fan-out; p <= n: element p (0 = the output) gets a 2nd target
        fan = None if fan == n + 1 else fan
        missing = ["none", "source", "sink", "sink2"][ctx.choice("missing", 4)]
        if missing == "sink2" and fan is None:
            ctx.cut("no second branch")
        order = ctx.choice("listing", 4)  # 0: source first, 1: sinks first, 2: sink, source, sink2; 3: sink2 first
        dangling = ctx.flag("unconnected_extra_input")
    src = {"time": TimeSrc, "pull": PullSrc, "static": StaticSrc}[src_kind]()
    sink = Sink(sink_kind, n_inputs=2 if dangling else 1)
    sink2 = Sink("pull") if fan is not None else None
    cand = {0: [src, sink, sink2], 1: [sink, sink2, src], 2: [sink, src, sink2], 3: [sink2, sink, src]}[order]
    drop = {"none": None, "source": src, "sink": sink, "sink2": sink2}[missing]
    comps = [c for c in cand if c is not None and c is not drop]
    composition = hlib.make_composition(comps)
    for c in (src, sink, sink2):
        if c is not None and c not in comps:
            c.initialize()
    elems = [src.outputs["o"]]
    for k in kinds:
        a = mk_ada(k)
        elems[-1] >> a
        elems.append(a)
    elems[-1] >> sink.inputs["i0"]
    links = [(elems[i], elems[i + 1]) for i in range(len(elems) - 1)] + [(elems[-1], sink.inputs["i0"])]
    if fan is not None:
        elems[fan] >> sink2.inputs["i0"]
        links.append((elems[fan], sink2.inputs["i0"]))
    # ---- the declarative rule -------------------------------------------------------------
    reasons = []
    if dangling:
        reasons.append("unconnected-input")
    if sink_kind in ("static", "static_push") and src_kind != "static":
        reasons.append("static-input-nonstatic-output")
    if missing != "none":
        reasons.append("missing-component")
    if fan is not None and any(isinstance(e, NoBranchAdapter) for e in elems[1:fan + 1]):
        reasons.append("branch-at-or-after-no-branch-adapter")

    def dead(chain):
        return any(chain[i].needs_pull and chain[j].needs_push
                   for i in range(len(chain)) for j in range(i + 1, len(chain)))

    if dead(elems + [sink.inputs["i0"]]) or (fan is not None and dead(elems[:fan + 1] + [sink2.inputs["i0"]])):
        reasons.append("dead-link")
    exchanged = []

    def note(*a, **k):
        exchanged.append(1)

    outcome = "ok"
    with hlib.Spy() as spy:
        spy.wrap(Output, "push_data", before=note)
        spy.wrap(Output, "get_data", before=note)
        spy.wrap(CallbackOutput, "get_data", before=note)
        try:
            composition.connect(hlib.T0 if any(isinstance(c, fm.ITimeComponent) for c in comps) else None)
        except FinamConnectError:
            outcome = "connect-error"
        except (symx.PathAbort, symx.SymbolicLeak, symx.HarnessError):
            raise
        except Exception as e:  # pylint: disable=broad-except
            outcome = "other:" + type(e).__name__
            ctx.log("err", type(e).__name__)
    sig = (f"src={src_kind}:sink={sink_kind}:chain={'+'.join(kinds)}:fan={fan}:missing={missing}:dangling={dangling}"
           f":listing={order}")
    ctx.log("outcome", outcome)
    ctx.cover(outcome.split(":")[0])
    if reasons:
        ctx.check(outcome == "connect-error", "unworkable-topology-not-rejected",
                  {"sig": "+".join(reasons), "scenario": sig, "outcome": outcome})
        if outcome == "connect-error":
            ctx.check(len(exchanged) == 0, "data-exchanged-before-rejection", {"sig": sig})
    else:
        ctx.check(outcome != "connect-error", "workable-topology-rejected", {"sig": sig, "outcome": outcome})
        if outcome == "ok":
            md = composition.metadata["links"]
            ctx.check(len(md) == len(links), "link-list-length", {"sig": sig, "reported": len(md), "created": len(links)})

            def key(x):
                return id(x)

            want = sorted((key(a), key(b)) for a, b in links)
            ids = {}
            for c in comps:
                for nme, o in c.outputs.items():
                    ids[("out", f"{c.name}@{id(c)}", nme)] = id(o)
                for nme, i in c.inputs.items():
                    ids[("in", f"{c.name}@{id(c)}", nme)] = id(i)
            for e in elems[1:]:
                ids[("ada", f"{e.name}@{id(e)}")] = id(e)
            got = []
            for l in md:
                f, t = l["from"], l["to"]
                a = ids[("out", f["component"], f["output"])] if "component" in f else ids[("ada", f["adapter"])]
                b = ids[("in", t["component"], t["input"])] if "component" in t else ids[("ada", t["adapter"])]
                got.append((a, b))
            ctx.check(sorted(got) == want, "link-list-differs-from-created-links", {"sig": sig})


def h_flags(ctx):
    """the real classes carry the flags the symbolic rule (a) quantifies over"""
    hlib.reset_finam_state()
    A = fm.adapters
    table = [
        (fm.Input(name="i"), False, True), (CallbackInput(callback=None, name="i"), True, False),
        (fm.Output(name="o"), True, False), (CallbackOutput(callback=None, name="o"), False, True),
        (A.Scale(1.0), False, False), (A.LinearTime(), True, False), (A.NextTime(), True, False),
        (A.PreviousTime(), True, False), (A.StepTime(), True, False), (A.StackTime(), True, False),
        (A.AvgOverTime(), True, False), (A.SumOverTime(), True, False),
        (A.DelayFixed(hlib.DAY), False, False), (A.DelayToPull(), False, False), (A.DelayToPush(), False, False),
    ]
    for obj, push, pull in table:
        ctx.check(bool(obj.needs_push) == push and bool(obj.needs_pull) == pull, "class-flags",
                  {"sig": type(obj).__name__})
    ctx.cover("done")


EXPLANATION = (
    "(a) The real schedule._check_dead_links runs on chains of 0-4 adapter stubs whose needs_push / needs_pull are FREE "
    "SYMBOLIC booleans (symx); the declarative rule 'some element that needs pull is followed by one that needs push' "
    "is a z3 formula over the same booleans and z3 must refute raised ≠ rule on every path -- a genuine for-all claim over "
    "flag assignments, transferred to the real classes by (c) reading their flags. (b) Real topologies through the real "
    "Composition.connect (_validate_composition, _check_input_connected, _check_dead_links, _check_branching, "
    "_check_missing_components): source kind (time / pull-based / static) x sink kind (pull / push-notified / static / static push-notified) x "
    "chains of 0-3 adapters from {Scale, LinearTime, DelayFixed, DelayToPull, DelayToPush} x fan-out position x missing "
    "component x dangling input, chosen by fork variables: FinamConnectError iff the declarative rule of the statement "
    "says unworkable, no push/pull before the rejection, and on success metadata['links'] equals the created links. (b) is "
    "an engine-directed complete case split over a finite space."
)
ASSUMPTIONS = ["adapter chains up to 3 (quick 2) in the real-topology part, up to 4 stubs in the symbolic part"]


def families(tier):
    q = tier == "quick"
    fams = [dict(name=f"deadlink:sym:{n}", ref="vf.props.c19:h_deadlink", params={"adapters": n},
                 bounds=f"source + {n} adapters + input, all flags symbolic", must_cover=["raised", "passed"])
            for n in ((0, 1, 2, 3) if q else (0, 1, 2, 3, 4))]
    fams.append(dict(name="flags", ref="vf.props.c19:h_flags", params={}, bounds="15 real slot/adapter classes",
                     must_cover=["done"]))
    fams.append(dict(name="validate:branching", ref="vf.props.c19:h_validate",
                     params={"max_chain": 4 if q else 5, "focus": "branching"},
                     bounds=f"time source -> chains of 0-{4 if q else 5} adapters from (Scale, LinearTime, DelayToPull) -> "
                            f"pull sink, second consumer attached at every position",
                     must_cover=["ok", "connect-error"]))
    fams.append(dict(name="validate:real", ref="vf.props.c19:h_validate", params={"max_chain": 2 if q else 3},
                     bounds=f"real topologies, adapter chains up to {2 if q else 3}", must_cover=["ok", "connect-error"]))
    return fams
