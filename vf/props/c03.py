"""C03 -- a run terminates, reaches the end time, and walks each life cycle once."""
from .. import sched, topos

EXPLANATION = (
    "Bounded symbolic execution (symx proxies + z3) of the real Composition.run with symbolic start offsets, steps, "
    "delays and end time (on or off the step grids: the comparison time < end is decided by the solver on both sides). "
    "Per feasible path: run() returns; z3 proves time >= end for every time component (PC ∧ time < end unsat); "
    "consecutive update times strictly increase; with end after the composition start no update is entered once all "
    "time components have reached the end (asserted at the entry of Component.update); the recorded call word of every "
    "component matches initialize connect+ validate update* finalize and its status is FINALIZED; Adapter.finalize was "
    "called exactly once per adapter. Termination is an unwinding-style claim: paths needing more than the stated "
    "number of updates are cut and counted, not passed. " + sched.RUN_FUNCTIONS_NOTE
)
ASSUMPTIONS = ["claim limited to runs within the stated total number of updates and to the listed topologies"]


def families(tier):
    q = tier == "quick"
    D, R = topos.DAGS, topos.RINGS_OK
    fams = []

    def add(name, topo, uq, ut, **kw):
        u = uq if q else ut
        if u:
            fams.append(sched.run_family("C03", name, topo, u, **kw))

    add("ab", D["ab"], 4, 7, vary_connect=True)
    add("ba_listed", D["ba_listed"], 4, 6)
    add("ab_scale_linear", D["ab_scale_linear"], 4, 6)
    add("ab_avg", D["ab_avg"], 0, 6)
    add("ab_dfix", D["ab_dfix"], 0, 6)
    add("ab_dpull", D["ab_dpull"], 0, 6)
    add("ab_vary", D["ab_vary"], 4, 6)
    add("a_p_b", D["a_p_b"], 4, 6, vary_connect=True)
    add("abc", D["abc"], 3, 5)
    add("ab_p_c", D["ab_p_c"], 3, 4)  # pull-based merger fed by two time components
    add("a0_a_p_b_rev", D["a0_a_p_b_rev"], 0, 4)
    add("a_p_two_outputs_c", topos.PULL_DIAMONDS["a_p_two_outputs_c"], 3, 5)
    add("a_p_diamond_c", topos.PULL_DIAMONDS["a_p_diamond_c"], 3, 4)
    add("cba_listed", D["cba_listed"], 0, 5)
    add("fan_in", D["fan_in"], 0, 5)
    add("fan_out", D["fan_out"], 3, 5)
    add("tap_long_branch", topos.TAPS["tap_long_branch"], 3, 4)
    add("tap_scale_and_linear", topos.TAPS["tap_scale_and_linear"], 0, 3)
    add("ring2_dfix_scale_dfix", R["ring2_dfix_scale_dfix"], 3, 4, delay_sum_ge_steps=True)
    add("ring3_dfix", R["ring3_dfix"], 0, 4, delay_sum_ge_steps=True)
    for name, uq, ut in (("finisher_alone", 3, 5), ("finisher_feeds_dpush", 4, 6)):
        u = uq if q else ut
        f = sched.run_family("C03", name, topos.FINISHING[name], u)
        f["must_cover"] = ["outcome:ok", "finished-early"]
        fams.append(f)
    return fams
