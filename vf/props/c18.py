"""C18 -- masked data: compression round-trips and mask rules are as documented."""
from __future__ import annotations

import numpy as np

from .. import hlib, symx
from ..hlib import fm
from finam.data import tools as dtools
from finam.data.tools import Mask
from finam.errors import FinamMetaDataError


def h_roundtrip(ctx):
    shape = tuple(ctx.params["shape"])
    form = ctx.params["form"]  # masked | plain+mask | quantity
    hlib.reset_finam_state()
    order = "F" if ctx.flag("order_F") else "C"
    n = int(np.prod(shape))
    bits = [ctx.flag(f"m{q}") for q in range(n)]  # the real numpy loops inspect every bit: full split
    vals = [ctx.real(f"x{q}") for q in range(n)]
    X = np.empty(shape, dtype=object)
    M = np.zeros(shape, dtype=bool)
    for q, idx in enumerate(np.ndindex(*shape)):
        X[idx] = vals[q]
        M[idx] = bits[q]
    if form == "masked":
        src = np.ma.array(X, mask=M.copy())
        comp = dtools.to_compressed(src, order=order)
    elif form == "plain+mask":
        src = X
        comp = dtools.to_compressed(src, order=order, mask=M.copy())
    elif form == "plain+intmask":
        # numpy's 0/1 integer spelling of a mask (valid for MaskedArray), for compressing and for expanding
        src = X
        comp = dtools.to_compressed(src, order=order, mask=M.astype(int))
    elif form == "quantity+mask":
        src = fm.UNITS.Quantity(X, "m")
        try:
            comp = dtools.to_compressed(src, order=order, mask=M.copy())
        except (symx.PathAbort, symx.SymbolicLeak, symx.HarnessError):
            raise
        except Exception as e:  # pylint: disable=broad-except
            ctx.fail("compress-quantified-plain-data-with-mask-fails", {"sig": type(e).__name__, "error": str(e)[:120]})
            return
        ctx.check(dtools.is_quantified(comp) and comp.units == fm.UNITS.Unit("m"), "compressed-lost-units")
    else:
        src = fm.UNITS.Quantity(np.ma.array(X, mask=M.copy()), "m")
        comp = dtools.to_compressed(src, order=order)
        ctx.check(dtools.is_quantified(comp) and comp.units == fm.UNITS.Unit("m"), "compressed-lost-units")
    cm = comp.magnitude if dtools.is_quantified(comp) else comp
    cm = np.asarray(cm, dtype=object)
    keep = [idx for idx in (np.ndindex(*shape) if order == "C" else
                            [tuple(reversed(i)) for i in np.ndindex(*shape[::-1])]) if not M[idx]]
    ctx.check(cm.shape == (len(keep),), "compressed-length", {"sig": f"{shape}:{order}"})
    for k, idx in enumerate(keep):
        if k < len(cm):
            ctx.check(ctx.eq(cm[k], X[idx]), "compressed-order", {"sig": f"{shape}:{order}:{form}"})
    back = dtools.from_compressed(comp, shape, order=order, mask=M.astype(int) if form == "plain+intmask" else M.copy())
    bm = back.magnitude if dtools.is_quantified(back) else back
    ctx.check(np.shape(bm) == shape, "expanded-shape")
    ctx.check(bool(np.array_equal(np.ma.getmaskarray(bm), M)), "expanded-mask-differs", {"sig": f"{shape}:{order}"})
    bd = np.ma.getdata(bm)
    for idx in np.ndindex(*shape):
        if not M[idx]:
            ctx.check(ctx.eq(bd[idx], X[idx]), "roundtrip-value-misplaced", {"sig": f"{shape}:{order}:{form}"})
    ctx.log("n_unmasked", len(keep))
    ctx.cover("partial" if 0 < len(keep) < n else ("none-masked" if len(keep) == n else "all-masked"))


def h_prepare(ctx):
    """prepare() under metadata with a fixed mask applies exactly that mask."""
    dims = tuple(ctx.params.get("dims", (3, 4)))
    shape = tuple(n - 1 for n in dims)
    n_el = int(np.prod(shape))
    hlib.reset_finam_state()
    order = ctx.params.get("order", "F")
    grid = fm.UniformGrid(dims, order=order)
    fixed = ctx.params.get("fixed_bits")
    # every mask (one fork per bit) on small grids; on larger ones a few bits are symbolic, the rest a fixed pattern
    bits = [ctx.flag(f"m{q}") if fixed is None or q < fixed else (q % 3 == 1) for q in range(n_el)]
    M = np.array(bits, dtype=bool).reshape(shape)
    info = fm.Info(time=hlib.T0, grid=grid, units="m", mask=M.copy())
    vals = [ctx.real(f"x{q}") for q in range(n_el)]
    X = np.empty(shape, dtype=object)
    for q, idx in enumerate(np.ndindex(*shape)):
        X[idx] = vals[q]
    form = ctx.choice("form", 5)
    data = [X, fm.UNITS.Quantity(X, "m"), X.reshape(-1, order=order),
            fm.UNITS.Quantity(X.reshape(-1, order=order), "m"), X[np.newaxis, ...]][form]
    out = dtools.prepare(data, info)
    m = out.magnitude
    ctx.check(np.ma.isMaskedArray(m), "prepare-not-masked")
    ctx.check(out.shape == (1,) + shape, "prepare-shape")
    ctx.check(bool(np.array_equal(np.ma.getmaskarray(m)[0], M)), "prepare-mask-differs-from-info-mask",
              {"sig": str(form)})
    d = np.ma.getdata(m)[0]
    for idx in np.ndindex(*shape):
        ctx.check(ctx.eq(d[idx], X[idx]), "prepare-value-misplaced", {"sig": str(form)})
    ctx.cover("done")


A = np.array([[True, False, False], [False, False, True]])
B = np.array([[False, True, False], [False, False, True]])
SPECS = ["FLEX", "NONE", "nomask", "all-false", "A", "B", "full", "Afx", "Afy"]
PHYS = {"all-false": np.zeros((2, 3), bool), "A": A, "B": B, "full": np.ones((2, 3), bool),
        # A mirrored along x / y: in a layout with that axis decreasing their raw array equals A's
        "Afx": A[::-1, :].copy(), "Afy": A[:, ::-1].copy()}


def _mask(name, grid_layout=None, ref_grid=None, grid=None):
    """mask value for a spec name; array masks are given for the reference layout and re-expressed
    in the layout of ``grid`` (same physical cells masked)."""
    if name == "FLEX":
        return Mask.FLEX
    if name == "NONE":
        return Mask.NONE
    if name == "nomask":
        return np.ma.nomask
    arr = PHYS[name]
    if grid is None or ref_grid is None:
        return arr.copy()
    # physical re-expression, written from the documented flags (independent of to/from_canonical)
    out = np.zeros(grid.data_shape, dtype=bool)
    for j in np.ndindex(*grid.data_shape):
        c = [None, None]
        for a in range(2):
            ax = 1 - a if grid.axes_reversed else a
            c[ax] = j[a] if grid.axes_increase[ax] else grid.data_shape[a] - 1 - j[a]
        out[j] = arr[tuple(c)]  # reference layout: not reversed, increasing
    return out


# square 3x3 cell grid: asymmetric masks (not invariant under any transpose / flip)
PHYS["A3"] = np.array([[True, True, False], [False, False, True], [False, False, False]])
PHYS["B3"] = np.array([[False, True, False], [True, False, False], [False, False, True]])
SPECS3 = ["FLEX", "NONE", "nomask", "A3", "B3"]


def _physical(name):
    if name in ("nomask", "all-false"):
        return np.zeros((2, 3), bool)
    return PHYS[name]


def h_accept(ctx):
    """connect-time mask rule through the real Output.get_info / Input.exchange_info / Info.accepts"""
    hlib.reset_finam_state()
    dims = tuple(ctx.params.get("dims", (3, 4)))
    specs = SPECS3 if dims == (4, 4) else SPECS
    prod = specs[ctx.choice("producer", len(specs))]
    cons = specs[ctx.choice("consumer", len(specs))]
    ref = fm.UniformGrid(dims)

    def layout(tag):
        rev = ctx.flag(tag + "_rev")
        inc = [ctx.flag(f"{tag}_inc{i}") for i in range(2)]
        return fm.UniformGrid(dims, axes_reversed=rev, axes_increase=inc)

    gp = layout("p")
    cons_grid_unset = ctx.flag("consumer_grid_unset")
    gc = None if cons_grid_unset else layout("c")
    mp = _mask(prod, ref_grid=ref, grid=gp)
    # a consumer without grid gives its mask in the producer's layout (it will take over that grid)
    mc = _mask(cons, ref_grid=ref, grid=gc if gc is not None else gp)
    out = fm.Output(name="out", info=fm.Info(time=hlib.T0, grid=gp, units="m", mask=mp))
    inp = fm.Input(name="in", info=fm.Info(time=hlib.T0, grid=gc, units="m", mask=mc))
    out >> inp
    inp.ping()
    try:
        inp.exchange_info()
        res = "accepted"
    except FinamMetaDataError:
        res = "rejected"
    except (symx.PathAbort, symx.SymbolicLeak, symx.HarnessError):
        raise
    except Exception as e:  # pylint: disable=broad-except
        res = "error:" + type(e).__name__
    if cons == "FLEX":
        exp = "accepted"
    elif cons == "NONE":
        exp = "accepted" if prod == "NONE" else "rejected"
    else:
        exp = "accepted" if prod not in ("FLEX", "NONE") and bool(
            np.array_equal(_physical(prod), _physical(cons))) else "rejected"
    ctx.cover(res)
    ctx.log("res", [prod, cons, res])
    ctx.check(res == exp, "mask-acceptance-differs-from-documented-rule",
              {"sig": f"producer={prod}:consumer={cons}:consumer_grid_unset={cons_grid_unset}", "got": res,
               "expected": exp})


EXPLANATION = (
    "Driven by the symx engine (z3 for path feasibility and the value obligations). (roundtrip) the real to_compressed / "
    "from_compressed on plain, masked and quantified object arrays of symbolic real values, every shape listed, both "
    "orders, and EVERY mask: the mask bits are fork variables because the real numpy loops inspect each bit, so this is a "
    "solver-directed exhaustive split over masks with uninterpreted values; obligations: compressed length and order, "
    "values back at their positions, mask restored. (prepare) real tools.prepare with a fixed info mask, every mask of a "
    "2x3 grid, three payload forms. (accept) the documented connect rule through the real Output.get_info / "
    "Input.exchange_info / Info.accepts / masks_compatible / masks_equal for all producer x consumer mask specifications "
    "(FLEX, NONE, nomask, all-false, two partial masks, full) x all layouts on both sides (the same physical mask "
    "re-expressed per layout from the documented flags) x consumer grid set/unset."
)
ASSUMPTIONS = ["arrays up to 8 (quick) / 12 (thorough) elements", "mask acceptance on a 2x3-cell UniformGrid"]


def families(tier):
    q = tier == "quick"
    fams = []
    shapes = [(4,), (2, 3), (2, 2, 2)] if q else [(5,), (1,), (2, 3), (3, 2), (4, 2), (2, 2, 2), (3, 2, 2), (1, 3, 2)]
    for shape in shapes:
        for form in ("masked", "plain+mask", "plain+intmask", "quantity", "quantity+mask"):
            if q and (form.startswith("quantity") or form == "plain+intmask") and shape != (2, 3):
                continue
            fams.append(dict(name=f"roundtrip:{'x'.join(map(str, shape))}:{form}", ref="vf.props.c18:h_roundtrip",
                             params={"shape": list(shape), "form": form},
                             bounds=f"shape {shape}, input form {form}, both orders, all {2 ** int(np.prod(shape))} masks, "
                                    f"symbolic values",
                             must_cover=(["partial"] if int(np.prod(shape)) > 1 else []) + ["none-masked", "all-masked"]))
    fams.append(dict(name="prepare:2x3", ref="vf.props.c18:h_prepare", params={},
                     bounds="2x3 grid, all 64 masks, payload as array / quantity / flat F-ordered array / flat quantity / with time axis",
                     must_cover=["done"]))
    fams.append(dict(name="prepare:2x3:C", ref="vf.props.c18:h_prepare", params={"order": "C"},
                     bounds="as prepare:2x3 on a C-ordered grid", must_cover=["done"]))
    for order in ("F", "C"):
        fams.append(dict(name=f"prepare:2x2x3:{order}", ref="vf.props.c18:h_prepare",
                         params={"dims": [3, 3, 4], "order": order, "fixed_bits": 5},
                         bounds=f"3-D grid with 2x2x3 cells, order {order}: 5 mask bits symbolic (32 masks) on top of a fixed "
                                f"asymmetric pattern, same five payload forms", must_cover=["done"]))
    fams.append(dict(name="accept:2x3", ref="vf.props.c18:h_accept", params={},
                     bounds="9 x 9 mask specifications, 8 layouts of the producer grid, 8 layouts of the consumer grid or "
                            "no consumer grid", must_cover=["accepted", "rejected"]))
    fams.append(dict(name="accept:3x3", ref="vf.props.c18:h_accept", params={"dims": [4, 4]},
                     bounds="square 3x3-cell grid (transposes keep the shape): 5 x 5 mask specifications with two masks "
                            "that no transpose / flip maps onto themselves, 8 layouts of the producer grid, 8 layouts of the "
                            "consumer grid or no consumer grid", must_cover=["accepted", "rejected"]))
    return fams
