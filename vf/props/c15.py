"""C15 -- canonical form and conversion between compatible grids preserve located values."""
from __future__ import annotations

import itertools

import numpy as np
import z3

from .. import hlib, symx
from ..hlib import fm
from ..lazyarr import LazyArr
from finam.data.grid_tools import Location


class SymDimsGrid(fm.UniformGrid):
    """A real UniformGrid whose ``dims`` (axis lengths) are overridden by symbolic integers.
    Everything else -- data_shape (memoised in RectilinearGrid), axes_reversed, axes_increase
    (computed by check_axes_monotonicity from really decreasing axes), to_canonical,
    from_canonical -- is the unmodified finam code."""

    def __init__(self, sym_dims, **kw):
        self._sym_dims = tuple(sym_dims)
        super().__init__(dims=(2,) * len(sym_dims), **kw)

    @property
    def dims(self):
        return self._sym_dims


def _extent(n, cells):
    """number of data entries along an axis with n points"""
    if cells:
        return n - 1 if bool(n - 1 >= 1) else 1
    return n


def _elem(ctx, arr, idx):
    if isinstance(arr, LazyArr):
        return symx.SymReal(arr.elem([symx.term_of(i) for i in idx]))
    return arr[tuple(int(i) for i in idx)]


def _base(ctx, d, dshape):
    """the data array: LazyArr over an uninterpreted function, or (concrete mode) an index-coded ndarray"""
    if ctx.concrete:
        size = int(np.prod([int(s) for s in dshape]))
        return np.arange(size, dtype=float).reshape([int(s) for s in dshape])
    f = z3.Function("X", *([z3.IntSort()] * d + [z3.RealSort()]))
    return LazyArr(dshape, f)


def _index(ctx, name, shape):
    idx = []
    for a, s in enumerate(shape):
        i = ctx.int(f"{name}{a}", lo=0)
        ctx.assume(i < s)
        idx.append(i)
    return idx


def h_canon(ctx):
    d = ctx.params["dim"]
    hi = ctx.params.get("max_len")
    hlib.reset_finam_state()
    rev = ctx.flag("axes_reversed")
    inc = [ctx.flag(f"increase{i}") for i in range(d)]
    cells = ctx.flag("cells")
    n = [ctx.int(f"n{i}", lo=1, hi=hi) for i in range(d)]
    g = SymDimsGrid(n, axes_reversed=rev, axes_increase=inc,
                    data_location=Location.CELLS if cells else Location.POINTS)
    ctx.check(list(g.axes_increase) == inc and g.axes_reversed == rev, "harness-grid-flags")
    ext = [_extent(n[i], cells) for i in range(d)]  # xyz order
    dshape = g.data_shape
    want = ext[::-1] if rev else ext
    ctx.check(len(dshape) == d, "data-shape-rank")
    for a in range(d):
        ctx.check(ctx.eq(dshape[a], want[a]), "data-shape", {"sig": f"dim{d}"})
    X = _base(ctx, d, dshape)
    C = g.to_canonical(X)
    cs = np.shape(C)
    ctx.check(len(cs) == d, "canonical-rank")
    for a in range(d):
        ctx.check(ctx.eq(cs[a], ext[a]), "canonical-shape-not-xyz", {"sig": f"dim{d}"})
    # canonical index (ix, iy, iz) holds the element at ascending coordinate indices (ix, iy, iz)
    i = _index(ctx, "i", ext)
    j = [None] * d
    for a in range(d):
        ax = d - 1 - a if rev else a
        j[a] = i[ax] if inc[ax] else ext[ax] - 1 - i[ax]
    ctx.check(ctx.eq(_elem(ctx, C, i), _elem(ctx, X, j)), "canonical-element-misplaced",
              {"sig": f"dim{d}:rev={rev}:inc={inc}"})
    ctx.log("canon", _elem(ctx, C, i))
    B = g.from_canonical(C)
    bs = np.shape(B)
    for a in range(d):
        ctx.check(ctx.eq(bs[a], dshape[a]), "roundtrip-shape")
    k = _index(ctx, "k", dshape)
    ctx.check(ctx.eq(_elem(ctx, B, k), _elem(ctx, X, k)), "roundtrip-not-identity",
              {"sig": f"dim{d}:rev={rev}:inc={inc}"})
    ctx.cover("done")


# ---------------------------------------------------------------------------------------------
def _mk(kind, dims, rev, inc, cells, order="F"):
    loc = Location.CELLS if cells else Location.POINTS
    sp = (1.0, 2.0, 0.5)[: len(dims)]
    org = (10.0, 20.0, 30.0)[: len(dims)]
    if kind == "esri":
        return fm.EsriGrid(ncols=dims[0] - 1, nrows=dims[1] - 1, cellsize=1.0, xllcorner=10.0, yllcorner=20.0)
    g = fm.UniformGrid(dims, spacing=sp, origin=org, data_location=loc, order=order, axes_reversed=rev,
                       axes_increase=inc)
    if kind == "rect":
        g = g.to_rectilinear()
    return g


def _coord_index(g, j):
    """ascending coordinate index per grid axis (xyz) of data index j, from the documented flags"""
    d = g.dim
    ds = g.data_shape
    c = [None] * d
    for a in range(d):
        ax = d - 1 - a if g.axes_reversed else a
        c[ax] = j[a] if g.axes_increase[ax] else ds[a] - 1 - j[a]
    return tuple(c)


def h_transform(ctx):
    p = ctx.params
    dims = tuple(p["dims"])
    d = len(dims)
    hlib.reset_finam_state()
    cells = ctx.flag("cells") if p["src"] != "esri" and p["dst"] != "esri" else True
    lay = {}
    for side in ("src", "dst"):
        if p[side] == "esri":
            lay[side] = (True, [True, False])
        else:
            lay[side] = (ctx.flag(side + "_rev"), [ctx.flag(f"{side}_inc{i}") for i in range(d)])
    if p["src"] == "esri" or p["dst"] == "esri":
        sp_dims = dims
    gs = _mk(p["src"], dims, lay["src"][0], lay["src"][1], cells)
    gd = _mk(p["dst"], dims, lay["dst"][0], lay["dst"][1], cells)
    if p["src"] == "esri" or p["dst"] == "esri":
        # same geometry as the ESRI grid: spacing 1, origin (10, 20)
        def uni(side):
            return fm.UniformGrid(dims, spacing=(1.0, 1.0), origin=(10.0, 20.0), axes_reversed=lay[side][0],
                                  axes_increase=lay[side][1])
        if p["src"] != "esri":
            gs = uni("src")
        if p["dst"] != "esri":
            gd = uni("dst")
    masked = p.get("masked", False)
    t0 = hlib.T0
    static = p.get("static", False)
    out = fm.Output(name="out", info=fm.Info(time=None if static else t0, grid=gs, units="m"), static=static)
    inp = fm.Input(name="in", info=fm.Info(time=None if static else t0, grid=gd, units="m"), static=static)
    out >> inp
    inp.ping()
    inp.exchange_info()
    shp = gs.data_shape
    if masked:
        vals = np.arange(int(np.prod(shp)), dtype=float).reshape(shp) + 1.0
        msk = (np.arange(int(np.prod(shp))).reshape(shp) % 3) == 0
        X = np.ma.masked_array(vals, mask=msk)
    else:
        flat = [ctx.real(f"x{q}") for q in range(int(np.prod(shp)))]
        X = np.empty(shp, dtype=object)
        for q, idx in enumerate(np.ndindex(*shp)):
            X[idx] = flat[q]
    with_time = p.get("with_time", True)
    out.push_data(X[np.newaxis, ...] if with_time else X, None if static else t0)
    same_layout = lay["src"] == lay["dst"]
    if same_layout:
        ctx.check(inp._transform is None, "equal-layouts-not-passed-through")
    # static links cache the delivered data: every pull (not only the first) must be the converted data
    for pull_no in range(p.get("pulls", 1)):
        try:
            Y = inp.pull_data(t0 + hlib.DAY * pull_no)
        except (symx.PathAbort, symx.SymbolicLeak, symx.HarnessError):
            raise
        except Exception as e:  # pylint: disable=broad-except
            ctx.log("exc", type(e).__name__)
            ctx.fail("conversion-between-compatible-layouts-fails",
                     {"sig": f"{type(e).__name__}:src_rev={lay['src'][0]}:dst_rev={lay['dst'][0]}:pull{pull_no}",
                      "error": str(e)[:160]})
            return
        ctx.cover("delivered")
        if tuple(Y.shape) != (1,) + tuple(gd.data_shape):
            ctx.fail("delivered-shape", {"sig": f"{Y.shape}:pull{pull_no}"})
            return
        ctx.check(True, "delivered-shape")
        Ym = Y.magnitude
        src_of = {}
        for i in np.ndindex(*gs.data_shape):
            src_of[_coord_index(gs, i)] = i
        da_s, da_d = gs.data_axes, gd.data_axes
        for j in np.ndindex(*gd.data_shape):
            i = src_of[_coord_index(gd, j)]
            # same physical location according to the grids' own coordinate functions
            ps = [da_s[a][i[a]] for a in range(d)]
            pd = [da_d[a][j[a]] for a in range(d)]
            ps = ps[::-1] if gs.axes_reversed else ps
            pd = pd[::-1] if gd.axes_reversed else pd
            ctx.check(bool(np.allclose(ps, pd)), "spec-location-mismatch", {"sig": "oracle"})
            if masked:
                ctx.check(bool(np.ma.getmaskarray(Ym)[(0,) + j] == msk[i]), "mask-at-wrong-location",
                          {"sig": f"src_rev={lay['src'][0]}:dst_rev={lay['dst'][0]}"})
                if not msk[i]:
                    ctx.check(float(np.ma.getdata(Ym)[(0,) + j]) == float(vals[i]), "value-at-wrong-location")
            else:
                ctx.check(ctx.eq(Ym[(0,) + j], X[i]), "value-at-wrong-location",
                          {"sig": f"src_rev={lay['src'][0]}:dst_rev={lay['dst'][0]}:pull{pull_no}"})


def h_compat(ctx):
    """compatible_with <=> same set of data locations; __eq__ additionally equal layout flags."""
    p = ctx.params
    dims = tuple(p["dims"])
    d = len(dims)
    hlib.reset_finam_state()

    def make(tag):
        cells = ctx.flag(tag + "_cells")
        rev = ctx.flag(tag + "_rev")
        inc = [ctx.flag(f"{tag}_inc{i}") for i in range(d)]
        # 0 same, 1 shifted origin, 2 other spacing, 3 one more point, 4 rectilinear with the same extent and node
        # count but a moved interior node, 5 the same geometry given as a RectilinearGrid
        variant = ctx.choice(tag + "_geom", 6)
        dm = list(dims)
        sp = [1.0, 2.0, 0.5][:d]
        org = [10.0, 20.0, 30.0][:d]
        if variant == 1:
            org[0] += 0.25
        elif variant == 2:
            sp[-1] *= 2
        elif variant == 3:
            dm[0] += 1
        crs = "EPSG:4326" if ctx.flag(tag + "_crs") else None
        loc = Location.CELLS if cells else Location.POINTS
        g = fm.UniformGrid(dm, spacing=sp, origin=org, axes_reversed=rev, axes_increase=inc, crs=crs,
                           data_location=loc)
        if variant in (4, 5):
            axes = [ax.copy() for ax in g.axes]
            if variant == 4:
                k = max(range(d), key=lambda i: len(axes[i]))
                if len(axes[k]) >= 3:
                    axes[k][1] += 0.3 * (axes[k][2] - axes[k][1])  # interior node moved, extent unchanged
            axes = [ax if inc[i] else ax[::-1].copy() for i, ax in enumerate(axes)]
            g = fm.RectilinearGrid(axes, data_location=loc, axes_reversed=rev, crs=crs)
        return g, (variant if variant != 5 else 0, crs, cells), (rev, inc)

    g1, geo1, lay1 = make("a")
    if ctx.params.get("fix_first", True):
        pass
    g2, geo2, lay2 = make("b")
    pts1 = {tuple(np.round(pt, 9)) for pt in np.atleast_2d(g1.data_points)}
    pts2 = {tuple(np.round(pt, 9)) for pt in np.atleast_2d(g2.data_points)}
    same_locations = pts1 == pts2 and geo1[1] == geo2[1] and geo1[2] == geo2[2]
    got = bool(g1.compatible_with(g2))
    ctx.cover("compatible" if got else "incompatible")
    ctx.check(got == same_locations, "compatible-iff-same-locations",
              {"sig": f"{geo1}|{geo2}|{lay1}|{lay2}", "compatible_with": got, "same": same_locations})
    eq = bool(g1 == g2)
    ctx.check(eq == (same_locations and lay1 == lay2), "eq-iff-same-locations-and-layout",
              {"sig": f"{lay1}|{lay2}"})
    if same_locations:
        tr = g1.get_transform_to(g2)
        ctx.check((tr is None) == (lay1 == lay2), "transform-none-iff-equal-layout")


EXPLANATION = (
    "Bounded symbolic execution (symx proxies + z3). (1) canon: the real StructuredGrid.to_canonical/from_canonical/"
    "data_shape run on a LazyArr -- an array of SYMBOLIC shape over an uninterpreted element function -- for a real "
    "UniformGrid whose axis lengths are symbolic integers >= 1 (layout flags and data location by forking): z3 proves "
    "for all axis lengths and all in-range index tuples that canonical[ix,iy,iz] is the element at ascending coordinate "
    "indices (ix,iy,iz) and that from_canonical∘to_canonical is the identity (index-term equality), and the shapes. "
    "(2) transform: real Output -> Input link between two layouts (all flag combinations by forking; Uniform, "
    "Rectilinear, ESRI) of the same small geometry with symbolic real payload and the leading time axis: delivered "
    "shape, and delivered[0,j] ≡ X[i] for the indices i, j that the documented flags (cross-checked against the grids' "
    "own data_axes coordinates) map to the same physical location; masks likewise. (3) compat: compatible_with ⇔ same "
    "set of data locations (computed from data_points) over geometry/crs/location/layout variants; __eq__ adds equal "
    "flags; transform None ⇔ equal layout. (2) and (3) are solver-directed exhaustive case splits over finite flag "
    "products with symbolic values; (1) is a for-all-sizes claim."
)
ASSUMPTIONS = ["LazyArr models numpy's transpose/flip/moveaxis/expand_dims index algebra (cross-validated against real "
               "numpy arrays on every path of the bounded-length canon families)",
               "axis lengths >= 1; dimension 1-3"]


def families(tier):
    q = tier == "quick"
    fams = []
    for d in (1, 2, 3):
        fams.append(dict(name=f"canon:{d}d:unbounded", ref="vf.props.c15:h_canon", params={"dim": d},
                         bounds=f"{d}-D, axis lengths symbolic >= 1 (unbounded), all layout flags, cells and points",
                         must_cover=["done"], validate=False))
        fams.append(dict(name=f"canon:{d}d:len<=4", ref="vf.props.c15:h_canon", params={"dim": d, "max_len": 4},
                         bounds=f"{d}-D, axis lengths symbolic in 1..4, cross-validated against numpy on every path",
                         must_cover=["done"]))
    pairs = [("uniform", "uniform", (3, 4)), ("uniform", "esri", (3, 4)), ("esri", "uniform", (3, 4))]
    if not q:
        pairs += [("rect", "uniform", (3, 4)), ("uniform", "rect", (2, 3, 3)), ("uniform", "uniform", (3, 2, 3)),
                  ("uniform", "uniform", (4,)), ("uniform", "uniform", (3, 1)), ("uniform", "uniform", (2, 2))]
    else:
        pairs += [("uniform", "uniform", (4,))]
    for s, t, dims in pairs:
        for masked in (False, True):
            if q and masked and (s, t) != ("uniform", "uniform"):
                continue
            fams.append(dict(
                name=f"transform:{s}->{t}:{'x'.join(map(str, dims))}{':masked' if masked else ''}",
                ref="vf.props.c15:h_transform",
                params={"src": s, "dst": t, "dims": list(dims), "masked": masked},
                bounds=f"source {s} / target {t} grid with {dims} points; every combination of axes_reversed and "
                       f"per-axis direction on both sides; cells and points; "
                       f"{'concrete masked payload' if masked else 'symbolic real payload'}; data with leading time axis",
                must_cover=["delivered"]))
    for s_, t_, dims in ([("uniform", "uniform", (3, 3))] if q else
                         [("uniform", "uniform", (3, 3)), ("uniform", "esri", (3, 4)), ("uniform", "uniform", (4,))]):
        fams.append(dict(
            name=f"transform_static:{s_}->{t_}:{'x'.join(map(str, dims))}", ref="vf.props.c15:h_transform",
            params={"src": s_, "dst": t_, "dims": list(dims), "masked": False, "static": True, "pulls": 2},
            bounds=f"STATIC output and input, source {s_} / target {t_} grid with {dims} points, all layout flags on "
                   f"both sides, symbolic payload; the input is pulled twice (the second pull is served from its cache)",
            must_cover=["delivered"]))
    for dims in ([(3, 4)] if q else [(3, 4), (4,), (2, 3, 2)]):
        fams.append(dict(name=f"compat:{'x'.join(map(str, dims))}", ref="vf.props.c15:h_compat",
                         params={"dims": list(dims)},
                         bounds=f"pairs of UniformGrids around {dims} points: 6 geometry variants (incl. rectilinear with a moved interior node) x crs x location x "
                                f"all layout flags on both sides",
                         must_cover=["compatible", "incompatible"]))
    return fams
