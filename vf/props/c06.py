"""C06 -- iterative connect converges or reports exactly the stuck components."""
from __future__ import annotations

import itertools
import re

import numpy as np

from .. import hlib, symx
from ..hlib import fm
from finam.errors import FinamCircularCouplingError
from finam.interfaces import ComponentStatus
from finam.tools.connect_helper import ConnectHelper, FromInput, FromOutput, FromValue


class CComp(fm.TimeComponent):
    """Time component whose connect behaviour is given by a spec.

    inputs : {name: {"info": "declared" | "from_out:<o>[+units=<u>]", "pull": bool}}
    outputs: {name: {"info": "declared[:<u>]" | "rule_in:<i>[+units=<u>]" | "manual_in:<i>", "deps": [inputs]}}
    ("+units=<u>": a FromValue rule after the transfer rule -- later rules overwrite earlier ones)
    """

    def __init__(self, name, idx, start, spec):
        super().__init__()
        self._name = name
        self.idx = idx
        self._time = start
        self.spec = spec
        self.calls = []
        self.published = {}

    def _next_time(self):
        return self.time + hlib.DAY

    def _initialize(self):
        in_rules, out_rules = {}, {}
        for n, s in self.spec.get("inputs", {}).items():
            if s["info"] == "declared":
                st = bool(s.get("static"))
                self.inputs.add(name=n, time=None if st else self.time, grid=fm.NoGrid(1), units=s.get("units"),
                                static=st)
            else:
                self.inputs.add(name=n, info=None)
                in_rules[n] = [FromOutput(_slot_of(s["info"]))] + _value_rules(s["info"])
        for n, s in self.spec.get("outputs", {}).items():
            if s["info"].startswith("declared"):
                st = bool(s.get("static"))
                self.outputs.add(name=n, time=None if st else self.time, grid=fm.NoGrid(1),
                                 units=_declared_units(s["info"]), static=st)
            else:
                self.outputs.add(name=n)
                if s["info"].startswith("rule_in:"):
                    out_rules[n] = [FromInput(_slot_of(s["info"]))] + _value_rules(s["info"])
        pulls = [n for n, s in self.spec.get("inputs", {}).items() if s.get("pull")]
        self.create_connector(pull_data=pulls, in_info_rules=in_rules, out_info_rules=out_rules)

    def _connect(self, start_time):
        push_infos, push_data = {}, {}
        c = self.connector
        for n, s in self.spec.get("outputs", {}).items():
            if s["info"].startswith("manual_in:") and not c.infos_pushed[n]:
                src = c.in_infos[_slot_of(s["info"])]
                if src is not None:
                    push_infos[n] = src.copy_with()
            if not c.data_pushed[n] and all(c.in_data.get(d) is not None for d in s.get("deps", [])):
                v = float(1000 * (self.idx + 1))
                if s.get("refine"):
                    # the value is refined from call to call while it cannot be published yet: handing data over
                    # again replaces what was handed over before
                    self.ncalls = getattr(self, "ncalls", 0) + 1
                    v += self.ncalls
                push_data[n] = np.array([v], dtype=object)  # raw: in the output's units
        self.try_connect(start_time, push_infos=push_infos, push_data=push_data)
        for n, d in push_data.items():
            if self.connector.data_pushed[n]:
                self.published[n] = float(d[0])  # published in this call: the value handed over in this call

    def _validate(self):
        pass

    def _update(self):
        self._time = self._time + hlib.DAY

    def _finalize(self):
        pass


def _slot_of(info):
    return info.split(":")[1].split("+")[0]


def _value_rules(info):
    return [FromValue("units", part.split("=")[1]) for part in info.split("+")[1:] if part.startswith("units=")]


def _override_units(info):
    for part in info.split("+")[1:]:
        if part.startswith("units="):
            return part.split("=")[1]
    return None


def _declared_units(info):
    u = info.split(":")[1] if ":" in info else "m"
    return None if u == "None" else u  # "declared:None": units left to the consumer


def resolve_units(spec):
    """Units every slot must carry after connect, from the declared rules alone (independent of finam):
    a declared output has its units; an output with a transfer rule takes its input's units unless a later
    value rule overrides them; an input declared without units takes its source's; an input with a
    FromOutput rule takes its own output's units unless overridden."""
    src_of = {(l[2], l[3]): (l[0], l[1]) for l in spec["links"]}
    units = {}
    for _ in range(12):
        for cn, cs in spec["comps"].items():
            for o, s in cs.get("outputs", {}).items():
                inf = s["info"]
                if inf.startswith("declared"):
                    units[("O", cn, o)] = _declared_units(inf)
                    if units[("O", cn, o)] is None:  # left unset: taken from the (first) consumer that states units
                        for l in spec["links"]:
                            if l[0] == cn and l[1] == o:
                                cu = spec["comps"][l[2]]["inputs"][l[3]].get("units")
                                if cu:
                                    units[("O", cn, o)] = cu
                                    break
                else:
                    units[("O", cn, o)] = _override_units(inf) or units.get(("I", cn, _slot_of(inf)))
            for i, s in cs.get("inputs", {}).items():
                inf = s["info"]
                if inf == "declared":
                    so = src_of[(cn, i)]
                    units[("I", cn, i)] = s.get("units") or units.get(("O",) + so)
                else:
                    units[("I", cn, i)] = _override_units(inf) or units.get(("O", cn, _slot_of(inf)))
    return units


def fixpoint(spec):
    """Least fix-point of 'can complete' over the declared exchanges (independent of finam)."""
    comps = spec["comps"]
    links = [l[:4] for l in spec["links"]]  # (src comp, out, dst comp, in[, shared pass-through adapter key])
    src_of = {(d, i): (s, o) for (s, o, d, i) in links}
    consumers = {}
    for (s, o, d, i) in links:
        consumers.setdefault((s, o), []).append((d, i))
    done = set()

    def ok(item):
        return item in done

    changed = True
    while changed:
        changed = False
        for cn, cs in comps.items():
            for i, s in cs.get("inputs", {}).items():
                so = src_of[(cn, i)]
                own = True if s["info"] == "declared" else ok(("OI", cn, _slot_of(s["info"])))
                if ("II", cn, i) not in done and own and ok(("PI",) + so):
                    done.add(("II", cn, i)); changed = True
                if s.get("pull") and ("ID", cn, i) not in done and ok(("II", cn, i)) and ok(("PD",) + so):
                    done.add(("ID", cn, i)); changed = True
            for o, s in cs.get("outputs", {}).items():
                if ("PI", cn, o) not in done:
                    if s["info"].startswith("declared") or ok(("II", cn, _slot_of(s["info"]))):
                        done.add(("PI", cn, o)); changed = True
                if ("OI", cn, o) not in done and ok(("PI", cn, o)) and \
                        all(ok(("II", d, i)) for (d, i) in consumers.get((cn, o), [])):
                    done.add(("OI", cn, o)); changed = True
                if ("PD", cn, o) not in done and ok(("OI", cn, o)) and \
                        all(ok(("ID", cn, d)) for d in s.get("deps", [])):
                    done.add(("PD", cn, o)); changed = True
    connected = set()
    for cn, cs in comps.items():
        need = [("II", cn, i) for i in cs.get("inputs", {})]
        need += [("ID", cn, i) for i, s in cs.get("inputs", {}).items() if s.get("pull")]
        need += [("OI", cn, o) for o in cs.get("outputs", {})] + [("PD", cn, o) for o in cs.get("outputs", {})]
        if all(x in done for x in need):
            connected.add(cn)
    return connected


def _snapshot(h):
    return (tuple(v is not None for v in h.in_infos.values()), tuple(v is not None for v in h.out_infos.values()),
            tuple(v is not None for v in h.in_data.values()), tuple(h.infos_pushed.values()),
            tuple(h.data_pushed.values()))


def h_connect(ctx):
    spec = ctx.params["spec"]
    names = list(spec["comps"])
    hlib.reset_finam_state()
    base = hlib.T0 if ctx.concrete else symx.SymDT.const(hlib.T0)
    perms = list(itertools.permutations(range(len(names))))
    perm = perms[ctx.choice("perm", len(perms))] if ctx.params.get("all_orders", True) else perms[0]
    comps = {}
    for k, n in enumerate(names):
        off = ctx.td("o_" + n, lo_us=0) if k > 0 else None
        comps[n] = CComp(n, k, base if off is None else base + off, spec["comps"][n])
    listed = [comps[names[i]] for i in perm]
    # composition start: the earliest component start (found automatically), or an explicitly given earlier time
    start = base
    if ctx.params.get("explicit_start"):
        start = base - ctx.td("before", lo_us=0)
    composition = hlib.make_composition(listed)
    shared = {}
    for l in spec["links"]:
        s, o, d, i = l[:4]
        via = l[4] if len(l) > 4 else None
        if via is None:
            comps[s].outputs[o] >> comps[d].inputs[i]
        else:
            if via not in shared:  # one pass-through adapter instance shared by all links naming it
                shared[via] = fm.adapters.Scale(1.0)
                comps[s].outputs[o] >> shared[via]
            shared[via] >> comps[d].inputs[i]
    for (s, o) in spec.get("dangling_adapters", []):
        comps[s].outputs[o] >> fm.adapters.Scale(1.0)  # an adapter nobody reads from
    expected = fixpoint(spec)
    exp_units = resolve_units(spec)
    calls = [0]
    bad = []

    orig = ConnectHelper.connect

    def spy_connect(self_, start_time, **kw):
        calls[0] += 1
        before = _snapshot(self_)
        st = orig(self_, start_time, **kw)
        after = _snapshot(self_)
        alldone = all(all(part) for part in after)
        if st == ComponentStatus.CONNECTED and not alldone:
            bad.append(("connected-with-outstanding-exchange", after))
        if alldone and st != ComponentStatus.CONNECTED:
            bad.append(("complete-but-not-connected", str(st)))
        if not alldone:
            progressed = before != after
            if progressed and st != ComponentStatus.CONNECTING:
                bad.append(("progress-not-reported", str(st)))
            if not progressed and st != ComponentStatus.CONNECTING_IDLE:
                bad.append(("progress-reported-without-exchange", str(st)))
        return st

    outcome, stuck = "ok", None
    with hlib.patched(ConnectHelper, "connect", spy_connect):
        try:
            composition.connect(start if ctx.params.get("explicit_start") else None)
        except FinamCircularCouplingError as e:
            outcome = "circular"
            m = re.search(r"Unconnected components: \[(.*)\]", str(e))
            stuck = sorted(x.strip() for x in m.group(1).split(",")) if m else None
        except (symx.PathAbort, symx.SymbolicLeak, symx.HarnessError):
            raise
        except Exception as e:  # pylint: disable=broad-except
            outcome = "error:" + type(e).__name__
            ctx.log("err", type(e).__name__)
    ctx.log("outcome", [outcome, stuck, list(perm)])
    ctx.cover("outcome:" + outcome.split(":")[0])
    sig = spec.get("name", "") + ":" + "".join(map(str, perm))
    for b in bad:
        ctx.fail("connect-call-status:" + b[0], {"sig": b[0], "detail": str(b[1]), "scenario": sig})
    n_items = sum(2 * len(c.get("inputs", {})) + 3 * len(c.get("outputs", {})) + 1 for c in spec["comps"].values())
    ctx.check(calls[0] <= len(names) * (n_items + 2), "connect-did-not-terminate-within-bound")
    if len(expected) == len(names):
        if outcome != "ok":
            ctx.fail("acyclic-dependencies-not-connected", {"sig": outcome, "stuck": stuck, "scenario": sig})
            return
        for n, c in comps.items():
            ctx.check(c.status == ComponentStatus.VALIDATED, "status-after-connect")
            h = c.connector
            ctx.check(all(v is not None for v in h.in_infos.values()), "in-info-missing")
            ctx.check(all(v is not None for v in h.out_infos.values()), "out-info-missing")
            ctx.check(all(v is not None for v in h.in_data.values()), "initial-pull-missing")
            for o in c.outputs.values():
                if o.is_static:
                    ctx.check(len(o.data) == 1, "static-output-not-published-once", {"sig": n})
                    continue
                ts = [t for t, _ in o.data]
                has_start = None
                has_own = None
                for t in ts:
                    a, b = (t == start), (t == c.time)
                    has_start = a if has_start is None else (has_start | a)
                    has_own = b if has_own is None else (has_own | b)
                ctx.check(has_start, "no-publication-for-composition-start", {"sig": n})
                ctx.check(has_own, "no-publication-for-own-start", {"sig": n})
            for i, s in c.spec.get("inputs", {}).items():
                if s.get("pull"):
                    srcn = [l[0] for l in spec["links"] if l[2] == n and l[3] == i][0]
                    srco = [l[1] for l in spec["links"] if l[2] == n and l[3] == i][0]
                    got = float(hlib.tagval(h.in_data[i]))
                    u_src, u_dst = exp_units.get(("O", srcn, srco)), exp_units.get(("I", n, i))
                    factor = float(fm.UNITS.Quantity(1.0, u_src).to(u_dst).magnitude) if u_src and u_dst else 1.0
                    want = comps[srcn].published.get(srco, float(1000 * (comps[srcn].idx + 1))) * factor
                    ctx.check(abs(got - want) <= 1e-9 * max(1.0, abs(want)), "initial-pull-wrong-value",
                              {"sig": f"{n}.{i}", "got": got, "want": want})
                    if u_dst:
                        ctx.check(h.in_data[i].units == fm.UNITS.Unit(u_dst), "initial-pull-wrong-units",
                                  {"sig": f"{n}.{i}", "units": str(h.in_data[i].units), "want": u_dst})
            for i in c.spec.get("inputs", {}):
                u = exp_units.get(("I", n, i))
                if u:
                    ctx.check(c.inputs[i].info.units == fm.UNITS.Unit(u), "input-metadata-differs-from-rules",
                              {"sig": f"{n}.{i}", "units": str(c.inputs[i].info.units), "want": u})
            for o in c.spec.get("outputs", {}):
                u = exp_units.get(("O", n, o))
                if u:
                    ctx.check(c.outputs[o].info.units == fm.UNITS.Unit(u), "output-metadata-differs-from-rules",
                              {"sig": f"{n}.{o}", "units": str(c.outputs[o].info.units), "want": u})
    else:
        if outcome != "circular":
            ctx.fail("cyclic-dependencies-not-reported", {"sig": outcome, "scenario": sig})
            return
        exp_stuck = sorted(set(names) - expected)
        ctx.check(stuck == exp_stuck, "reported-stuck-components-differ",
                  {"sig": sig, "reported": stuck, "expected": exp_stuck})


def D(pull=True):
    return {"info": "declared", "pull": pull}


SCENARIOS = [
    {"name": "chain2", "comps": {
        "A": {"outputs": {"o": {"info": "declared", "deps": []}}},
        "B": {"inputs": {"i": D()}}},
     "links": [("A", "o", "B", "i")]},
    {"name": "chain3_transfer", "comps": {
        "A": {"outputs": {"o": {"info": "declared", "deps": []}}},
        "B": {"inputs": {"i": D()}, "outputs": {"o": {"info": "rule_in:i", "deps": ["i"]}}},
        "C": {"inputs": {"i": D()}}},
     "links": [("A", "o", "B", "i"), ("B", "o", "C", "i")]},
    {"name": "chain3_manual", "comps": {
        "A": {"outputs": {"o": {"info": "declared", "deps": []}}},
        "B": {"inputs": {"i": D(False)}, "outputs": {"o": {"info": "manual_in:i", "deps": []}}},
        "C": {"inputs": {"i": D()}}},
     "links": [("A", "o", "B", "i"), ("B", "o", "C", "i")]},
    {"name": "ring_acyclic", "comps": {
        "A": {"inputs": {"i": D()}, "outputs": {"o": {"info": "declared", "deps": []}}},
        "B": {"inputs": {"i": D()}, "outputs": {"o": {"info": "declared", "deps": ["i"]}}}},
     "links": [("A", "o", "B", "i"), ("B", "o", "A", "i")]},
    {"name": "ring_cyclic_data", "comps": {
        "A": {"inputs": {"i": D()}, "outputs": {"o": {"info": "declared", "deps": ["i"]}}},
        "B": {"inputs": {"i": D()}, "outputs": {"o": {"info": "declared", "deps": ["i"]}}}},
     "links": [("A", "o", "B", "i"), ("B", "o", "A", "i")]},
    {"name": "handshake", "comps": {
        "M": {"inputs": {"flux": D()},
              "outputs": {"state": {"info": "declared", "deps": []}, "budget": {"info": "declared", "deps": ["flux"]}}},
        "S": {"inputs": {"state": D(), "budget": D()},
              "outputs": {"flux": {"info": "declared", "deps": ["state"]}}}},
     "links": [("M", "state", "S", "state"), ("S", "flux", "M", "flux"), ("M", "budget", "S", "budget")]},
    {"name": "info_cycle", "comps": {
        "X": {"outputs": {"o": {"info": "declared", "deps": []}}},
        "A": {"inputs": {"i": {"info": "from_out:o", "pull": False}},
              "outputs": {"o": {"info": "rule_in:i", "deps": []}}},
        "Y": {"inputs": {"i": D()}}},
     "links": [("X", "o", "A", "i"), ("A", "o", "Y", "i")]},
    {"name": "from_output_ok", "comps": {
        "X": {"outputs": {"o": {"info": "declared", "deps": []}}},
        "A": {"inputs": {"i": {"info": "from_out:o", "pull": True}},
              "outputs": {"o": {"info": "declared", "deps": []}}},
        "Y": {"inputs": {"i": D()}}},
     "links": [("X", "o", "A", "i"), ("A", "o", "Y", "i")]},
    {"name": "transfer_in_to_out_then_value", "comps": {
        "A": {"outputs": {"o": {"info": "declared", "deps": []}}},
        "T": {"inputs": {"i": D()}, "outputs": {"o": {"info": "rule_in:i+units=km", "deps": ["i"]}}},
        "C": {"inputs": {"i": D()}}},
     "links": [("A", "o", "T", "i"), ("T", "o", "C", "i")]},
    {"name": "transfer_out_to_in_then_value", "comps": {
        "X": {"outputs": {"o": {"info": "declared", "deps": []}}},
        "T": {"inputs": {"i": {"info": "from_out:o+units=km", "pull": True}},
              "outputs": {"o": {"info": "declared", "deps": []}}},
        "Y": {"inputs": {"i": D()}}},
     "links": [("X", "o", "T", "i"), ("T", "o", "Y", "i")]},
    {"name": "static_pair_units_from_consumer", "comps": {
        "P": {"outputs": {"o": {"info": "declared:None", "deps": [], "static": True}}},
        "C": {"inputs": {"i": {"info": "declared", "pull": True, "static": True, "units": "m"}}}},
     "links": [("P", "o", "C", "i")]},
    {"name": "transfer_refined_data", "comps": {
        "A": {"outputs": {"o": {"info": "declared", "deps": []}}},
        "T": {"inputs": {"i": D()}, "outputs": {"o": {"info": "rule_in:i", "deps": [], "refine": True}}},
        "C": {"inputs": {"i": D()}}},
     "links": [("A", "o", "T", "i"), ("T", "o", "C", "i")]},
    {"name": "branch_behind_adapter", "comps": {
        "C1": {"inputs": {"i": D()}},
        "P": {"outputs": {"o": {"info": "declared", "deps": []}}},
        "C2": {"inputs": {"i": D()}}},
     "links": [("P", "o", "C1", "i", "S"), ("P", "o", "C2", "i", "S")]},
    {"name": "unused_adapter", "comps": {
        "P": {"outputs": {"o": {"info": "declared", "deps": []}}},
        "C1": {"inputs": {"i": D()}}},
     "links": [("P", "o", "C1", "i")], "dangling_adapters": [("P", "o")]},
    {"name": "branch_behind_adapter_transfer", "comps": {
        "C1": {"inputs": {"i": D()}},
        "X": {"outputs": {"o": {"info": "declared", "deps": []}}},
        "P": {"inputs": {"i": D()}, "outputs": {"o": {"info": "rule_in:i", "deps": ["i"]}}},
        "C2": {"inputs": {"i": D(False)}}},
     "links": [("X", "o", "P", "i"), ("P", "o", "C1", "i", "S"), ("P", "o", "C2", "i", "S")]},
    {"name": "late_info_first_input", "comps": {
        "P": {"outputs": {"o": {"info": "declared", "deps": []}}},
        "X": {"inputs": {"in1": D(False), "in2": D(False)},
              "outputs": {"o": {"info": "rule_in:in2", "deps": []}}},
        "S": {"inputs": {"i": D(False)}, "outputs": {"o": {"info": "rule_in:i", "deps": []}}}},
     "links": [("P", "o", "X", "in2"), ("X", "o", "S", "i"), ("S", "o", "X", "in1")]},
    {"name": "partly_stuck", "comps": {
        "A": {"inputs": {"i": D()}, "outputs": {"o": {"info": "declared", "deps": ["i"]}}},
        "B": {"inputs": {"i": D()}, "outputs": {"o": {"info": "declared", "deps": ["i"]}}},
        "C": {"outputs": {"o": {"info": "declared", "deps": []}}},
        "E": {"inputs": {"i": D()}}},
     "links": [("A", "o", "B", "i"), ("B", "o", "A", "i"), ("C", "o", "E", "i")]},
    {"name": "downstream_of_stuck", "comps": {
        "A": {"inputs": {"i": D()}, "outputs": {"o": {"info": "declared", "deps": ["i"]},
                                                "p": {"info": "declared", "deps": ["i"]}}},
        "B": {"inputs": {"i": D()}, "outputs": {"o": {"info": "declared", "deps": ["i"]}}},
        "E": {"inputs": {"i": D()}}},
     "links": [("A", "o", "B", "i"), ("B", "o", "A", "i"), ("A", "p", "E", "i")]},
]

EXPLANATION = (
    "Bounded symbolic execution (symx proxies + z3) of the real Composition.connect / _connect_components / "
    "Component.connect / ConnectHelper.connect (+ _apply_*_rules, _exchange_in_infos, _push, _push_data) and the "
    "Output/Input info and data exchange, with harness components whose connect behaviour is a spec (per input: info "
    "declared or from a FromOutput rule (optionally followed by a FromValue rule), initial pull or not; per output: info "
    "declared, from a FromInput rule (optionally followed by a FromValue rule), or handed "
    "over manually once the input info arrived; initial data depending on chosen pulled inputs). Start offsets of the "
    "components relative to the composition start are symbolic (double initial publication when they differ: z3 must "
    "prove a publication exists for both times); listing order is a symbolic choice (all permutations). Oracle: an "
    "independent least fix-point over the declared exchanges decides 'acyclic' and the exact set of stuck components; "
    "every single ConnectHelper.connect call is checked for status vs. observed progress; the units every slot must carry "
    "and the value and units of every initial pull are derived from the declared rules alone (resolve_units) and "
    "compared with the exchanged infos and the delivered data. The dependency shapes are a "
    "finite catalogue -- the solver's part is path feasibility, the orders, and the start-time arithmetic."
)
ASSUMPTIONS = ["catalogue of 18 dependency scenarios (incl. a static output/input pair whose units come from the consumer) (incl. transfer rules followed by a value rule, in both directions) (incl. links branching behind a shared pass-through adapter and an adapter nobody reads from) (vf/props/c06.py SCENARIOS), up to 4 components"]


def families(tier):
    q = tier == "quick"
    fams = []
    for sc in SCENARIOS:
        allo = True
        acyclic = len(fixpoint(sc)) == len(sc["comps"])
        if sc["name"] in ("chain3_transfer", "handshake", "branch_behind_adapter", "ring_acyclic"):
            fams.append(dict(
                name="connect_explicit_start:" + sc["name"], ref="vf.props.c06:h_connect",
                params={"spec": sc, "all_orders": allo, "explicit_start": True},
                bounds=f"scenario {sc['name']}, all listing orders, symbolic start offsets, composition start given "
                       f"explicitly at a symbolic time <= the earliest component start",
                must_cover=["outcome:ok" if acyclic else "outcome:circular"]))
        fams.append(dict(
            name="connect:" + sc["name"], ref="vf.props.c06:h_connect",
            params={"spec": sc, "all_orders": allo},
            bounds=f"scenario {sc['name']} ({len(sc['comps'])} components, {len(sc['links'])} links), "
                   f"{'all listing orders' if allo else 'reference listing order'}, symbolic start offsets >= 0",
            must_cover=["outcome:ok" if acyclic else "outcome:circular"]))
    return fams
