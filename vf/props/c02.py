"""C02 -- the driver follows least-advanced-first and updates only what is needed."""
from .. import sched, topos

EXPLANATION = (
    "Bounded symbolic execution (symx proxies + z3) of the real Composition.run. At every top-level scheduling step the "
    "solver must prove that the chosen component is not ahead of any other time component; at every Component.update the "
    "harness walks, independently of finam.schedule, from that least-advanced component along links that (by the "
    "documented accumulated delay shifts) still lack data, and the updated component must be reached that way (a "
    "feasible path where it is not is a violation); finally the time that really arrives at the source output during "
    "the consumer's update must equal (z3: PC ∧ t_actual ≠ t_spec unsat) the accumulated shifted time. "
    + sched.RUN_FUNCTIONS_NOTE
)
ASSUMPTIONS = [
    "harness components pull every input at their announced next_time",
    "ties between equally advanced components may be broken in any way (only 'not ahead of any other' is required)",
]


def families(tier):
    q = tier == "quick"
    D, R = topos.DAGS, topos.RINGS_OK
    fams = []

    def add(name, topo, uq, ut, **kw):
        u = uq if q else ut
        if u:
            fams.append(sched.run_family("C02", name, topo, u, **kw))

    add("ab", D["ab"], 4, 7)
    add("ba_listed", D["ba_listed"], 4, 6)
    add("ab_scale_linear", D["ab_scale_linear"], 0, 6)
    add("ab_dfix", D["ab_dfix"], 4, 6)
    add("ab_dpull", D["ab_dpull"], 4, 6)
    add("ab_dpush", D["ab_dpush"], 0, 6)
    add("ab_vary", D["ab_vary"], 0, 6)
    add("a_p_b", D["a_p_b"], 0, 6)
    add("a_p_q_b", D["a_p_q_b"], 0, 6)
    add("a_p_dfix_b", D["a_p_dfix_b"], 3, 5)
    add("abc", D["abc"], 3, 5)
    add("cba_listed", D["cba_listed"], 0, 5)
    add("fan_in", D["fan_in"], 0, 5)
    add("fan_out", D["fan_out"], 0, 5)
    add("two_inputs_delay_first", D["two_inputs_delay_first"], 0, 4)
    add("two_dpull_inputs", D["two_dpull_inputs"], 3, 4)
    add("a_dpull_b_c", D["a_dpull_b_c"], 4, 5)
    add("adaptive_step", topos.ADAPTIVE, 3, 4)
    add("ring2_dfix", R["ring2_dfix"], 3, 5, delay_sum_ge_steps=True)
    add("ring2_dfix_scale_dfix", R["ring2_dfix_scale_dfix"], 3, 4, delay_sum_ge_steps=True)
    add("ring2_three", R["ring2_three"], 0, 4, delay_sum_ge_steps=True)
    add("ring2_pull", R["ring2_pull"], 0, 4, delay_sum_ge_steps=True)
    add("ring3_split", R["ring3_split"], 0, 4, delay_sum_ge_steps=True)
    # one scheduling step from an arbitrary state (no bound on the length of the run so far)
    for name, topo in {**D, **({} if q else topos.BIG)}.items():
        if name in ("ba_listed", "cba_listed", "a_p_b_rev"):
            continue
        fams.append(sched.step_family("C02", name, topo))
    for name, topo in {**R, **({"ring3_chord_ok": topos.BIG_RINGS["ring3_chord_ok"]} if q else topos.BIG_RINGS)}.items():
        if name == "ring2_dfix_listed_ba":
            continue
        fams.append(sched.step_family("C02", name, topo, delay_sum_ge_steps=True))
    fams.append(sched.step_family("C02", "ring2_dpush", topos.RINGS_PUSH["ring2_dpush"]))
    return fams
