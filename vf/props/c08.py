"""C08 -- data crossing a link keeps its values, time, units and shape."""
from __future__ import annotations

import numpy as np

from .. import hlib
from ..hlib import fm
from finam.errors import FinamTimeError


def h_nearest(ctx):
    """k publications with symbolic gaps, m non-decreasing symbolic requests through the
    real Output.push_data -> Input.pull_data path; oracle: exact integer distances."""
    k, m = ctx.params["k"], ctx.params["m"]
    hlib.reset_finam_state()
    t0 = ctx.dt("t0")
    times = [t0]
    for i in range(k - 1):
        times.append(times[-1] + ctx.td(f"g{i}", lo_us=1))
    out, inp = hlib.linked_pair(fm.Info(time=t0, grid=fm.NoGrid(), units="m"))
    for i, t in enumerate(times):
        out.push_data(float(i), t)
    prev = None
    for j in range(m):
        r = ctx.dt(f"r{j}")
        if prev is not None:
            ctx.assume(r >= prev)
        prev = r
        lo, hi = out.data[0][0], out.data[-1][0]
        try:
            d = inp.pull_data(r)
        except FinamTimeError:
            ctx.log(f"pull{j}", "time-error")
            ctx.cover("refused")
            ctx.check((r < lo) | (r > hi), "refused-only-outside-range", {"req": j})
            continue
        i = int(hlib.tagval(d))
        ctx.log(f"pull{j}", i)
        ctx.cover("served")
        ctx.check((r >= lo) & (r <= hi), "served-only-inside-range", {"req": j})
        for jj, tj in enumerate(times):
            if jj != i:
                ctx.check(abs(r - times[i]) <= abs(r - tj), "nearest-publication",
                          {"sig": "nearest"})
        ctx.check(d.shape == (1,), "leading-time-axis")


EXPLANATION = (
    "Bounded symbolic execution (own proxy engine symx + z3) of the real Output.push_data / "
    "Output.get_data / Output._interpolate / Input.pull_data code: publication gaps and request times "
    "are unbounded integer microsecond variables, every branch of the real code on them is explored on "
    "both feasible sides, and the nearest-publication / in-range oracle is posed as PC ∧ ¬property."
)
ASSUMPTIONS = ["single consumer, requests non-decreasing (the documented pull discipline)"]


def families(tier):
    q = tier == "quick"
    fams = [
        dict(name="nearest", ref="vf.props.c08:h_nearest",
             params={"k": 3, "m": 2} if q else {"k": 4, "m": 3},
             bounds="k publications (k<=3 quick, 4 thorough), m non-decreasing requests (2 / 3); gaps >= 1 us",
             must_cover=["served", "refused"]),
    ]
    if not q:
        from .. import chsrc
        fams.append(dict(name="crosshair:nearest", kind="crosshair", ref="vf.chrun:replay", src=chsrc.NEAREST, params={},
                         bounds="CrossHair on Output._interpolate with 3-4 publications, gaps <= 10^6 / 10^4 us (independent second encoding; inconclusive results are reported, not counted)",
                         per_condition_timeout=60, must_cover=["ran"]))
    return fams
