"""C08 -- data crossing a link keeps its values, time, units and shape."""
from __future__ import annotations

import numpy as np

from .. import hlib
from ..hlib import fm
from finam.errors import FinamTimeError


def h_nearest(ctx):
    """k publications with symbolic gaps, m non-decreasing symbolic requests through the
    real Output.push_data -> Input.pull_data path; oracle: exact integer distances."""
    k, m = ctx.params["k"], ctx.params["m"]
    hlib.reset_finam_state()
    t0 = ctx.dt("t0")
    times = [t0]
    for i in range(k - 1):
        times.append(times[-1] + ctx.td(f"g{i}", lo_us=1))
    out, inp = hlib.linked_pair(fm.Info(time=t0, grid=fm.NoGrid(), units="m"))
    for i, t in enumerate(times):
        out.push_data(float(i), t)
    prev = None
    for j in range(m):
        r = ctx.dt(f"r{j}")
        if prev is not None:
            ctx.assume(r >= prev)
        prev = r
        lo, hi = out.data[0][0], out.data[-1][0]
        try:
            d = inp.pull_data(r)
        except FinamTimeError:
            ctx.log(f"pull{j}", "time-error")
            ctx.cover("refused")
            ctx.check((r < lo) | (r > hi), "refused-only-outside-range", {"req": j})
            continue
        i = int(hlib.tagval(d))
        ctx.log(f"pull{j}", i)
        ctx.cover("served")
        ctx.check((r >= lo) & (r <= hi), "served-only-inside-range", {"req": j})
        for jj, tj in enumerate(times):
            if jj != i:
                ctx.check(abs(r - times[i]) <= abs(r - tj), "nearest-publication",
                          {"sig": "nearest"})
        ctx.check(d.shape == (1,), "leading-time-axis")


def h_interleaved(ctx):
    """Publications and requests interleaved (pattern of 'P' / 'R'), optionally with memory limit 0 so that every
    retained publication lives in a spill file: the delivered value is the nearest publication made so far."""
    import shutil
    import tempfile
    pattern, spill = ctx.params["pattern"], ctx.params.get("spill", False)
    hlib.reset_finam_state()
    t0 = ctx.dt("t0")
    out, inp = hlib.linked_pair(fm.Info(time=t0, grid=fm.NoGrid(), units="m"))
    tmpdir = None
    if spill:
        tmpdir = tempfile.mkdtemp(prefix="vf_c08_")
        out.memory_limit, out.memory_location = 0, tmpdir
    try:
        times = []
        prev = None
        j = 0
        for ev in pattern:
            if ev == "P":
                t = t0 if not times else times[-1] + ctx.td(f"g{len(times) - 1}", lo_us=1)
                out.push_data(np.array(float(len(times))), t)
                times.append(t)
                continue
            r = ctx.dt(f"r{j}")
            ctx.assume((r >= (prev if prev is not None else t0)) & (r <= times[-1]))
            prev = r
            try:
                d = inp.pull_data(r)
            except (FinamTimeError, OSError, ValueError) as e:
                ctx.log(f"pull{j}", type(e).__name__)
                ctx.fail("request-inside-published-range-fails", {"sig": type(e).__name__, "req": j})
                return
            i = int(hlib.tagval(d))
            ctx.log(f"pull{j}", i)
            ctx.cover("served")
            for jj, tj in enumerate(times):
                if jj != i:
                    ctx.check(abs(r - times[i]) <= abs(r - tj), "nearest-publication",
                              {"sig": "interleaved" + (":spilled" if spill else "")})
            j += 1
    finally:
        if tmpdir is not None:
            shutil.rmtree(tmpdir, ignore_errors=True)


def h_payload(ctx):
    """Payload forms x grid kinds x unit pairs with symbolic values through the real link."""
    from finam.errors import FinamDataError
    hlib.reset_finam_state()
    gk = ["nogrid0", "nogrid1", "uniform_cells", "uniform_points_C", "esri", "unstructured"][ctx.choice("grid", 6)]
    grid = {
        "nogrid0": lambda: fm.NoGrid(), "nogrid1": lambda: fm.NoGrid(1),
        "uniform_cells": lambda: fm.UniformGrid((3, 4)),
        "uniform_points_C": lambda: fm.UniformGrid((2, 3), data_location="POINTS", order="C"),
        "esri": lambda: fm.EsriGrid(ncols=3, nrows=2),
        "unstructured": lambda: fm.UniformGrid((3, 3)).to_unstructured(),
    }[gk]()
    shape = {"nogrid0": (), "nogrid1": (2,)}.get(gk) if gk.startswith("nogrid") else tuple(grid.data_shape)
    n = int(np.prod(shape)) if shape else 1
    pu, cu, given = [("m", "m", None), ("m", "mm", None), ("degC", "K", None), ("m", "km", "cm"), ("m", "m", "km")][
        ctx.choice("units", 5)]
    form = ["array", "list", "flat", "with_time_axis", "masked", "scalar"][ctx.choice("form", 6)]
    if form == "scalar" and gk != "nogrid0":
        ctx.cut("scalar-needs-0d")
    if form == "flat" and gk.startswith("nogrid"):
        ctx.cut("flat-needs-grid")
    if form == "masked" and gk == "nogrid0":
        ctx.cut("0-d masked object arrays collapse to scalars inside numpy.ma (proxy limitation)")
    # metadata may demand a fixed mask (applied by prepare to unmasked payloads)
    fixed = (ctx.flag("info_fixed_mask") if shape and gk != "nogrid1" else False)
    FM = ((np.arange(n).reshape(shape) % 3) == 1) if fixed else None
    vals = [ctx.real(f"x{q}") for q in range(n)]
    X = np.empty(shape, dtype=object)
    for q, idx in enumerate(np.ndindex(*shape)):
        X[idx] = vals[q]
    if not shape:
        X = np.array(vals[0], dtype=object)
    order = getattr(grid, "order", "C")
    M = None
    if form == "array":
        data = X
    elif form == "list":
        data = X.tolist()
    elif form == "flat":
        data = X.reshape(-1, order=order)
    elif form == "with_time_axis":
        data = X[np.newaxis, ...]
    elif form == "masked":
        M = FM if fixed else ((np.arange(n).reshape(shape) % 2 == 0) if shape else np.array(False))
        data = np.ma.array(X, mask=M)
    else:
        data = vals[0]
    if given is not None:
        data = fm.UNITS.Quantity(np.asarray(data, dtype=object) if form != "masked" else data, given)
    if fixed:
        M = FM
        out = fm.Output(name="out", info=fm.Info(time=hlib.T0, grid=grid, units=pu, mask=FM.copy()))
    else:
        out = fm.Output(name="out", info=fm.Info(time=hlib.T0, grid=grid, units=pu))
    inp = fm.Input(name="in", info=fm.Info(time=hlib.T0, grid=None, units=cu))
    out >> inp
    inp.ping()
    inp.exchange_info()
    out.push_data(data, hlib.T0)
    d = inp.pull_data(hlib.T0)
    sig = f"{gk}:{form}:{given or pu}->{pu}->{cu}:{'fixedmask' if fixed else 'flex'}"
    ctx.cover("delivered")
    ctx.check(tuple(d.shape) == (1,) + tuple(shape), "delivered-shape", {"sig": sig, "shape": str(d.shape)})
    ctx.check(d.units == fm.UNITS.Unit(cu), "delivered-units", {"sig": sig})
    src_u = given or pu
    c0 = float(fm.UNITS.Quantity(0.0, src_u).to(cu).magnitude)
    c1 = float(fm.UNITS.Quantity(1.0, src_u).to(cu).magnitude)
    a, b = c1 - c0, c0
    dm = d.magnitude
    got = np.asarray(np.ma.getdata(dm), dtype=object)[0]
    for q, idx in enumerate(np.ndindex(*shape) if shape else []):
        if M is not None and M[idx]:
            continue
        ctx.check(ctx.eq(got[idx], a * vals[q] + b, tol=1e-9), "value-not-converted-published-value",
                  {"sig": sig, "a": a, "b": b})
    if not shape:
        ctx.check(ctx.eq(np.asarray(got).reshape(-1)[0], a * vals[0] + b, tol=1e-9),
                  "value-not-converted-published-value", {"sig": sig})
    if M is not None:
        ctx.check(np.ma.isMaskedArray(dm) and bool(np.array_equal(np.ma.getmaskarray(dm)[0], M)),
                  "delivered-mask-differs", {"sig": sig})
    # publishing an array that shares memory with the previously published one is refused
    if form in ("array", "with_time_axis", "flat") and shape and given is None and not fixed:
        try:
            out.push_data(data, hlib.T0 + hlib.DAY)
            ctx.fail("memory-sharing-publication-accepted", {"sig": sig})
        except FinamDataError:
            ctx.cover("sharing-refused")


def h_sharing(ctx):
    """publishing an array that shares memory with the PREVIOUSLY published one is refused -- whatever else is still
    retained in the history"""
    from finam.errors import FinamDataError
    n = ctx.params["pushes"]
    hlib.reset_finam_state()
    out, inp = hlib.linked_pair(fm.Info(time=hlib.T0, grid=fm.NoGrid(1), units="m"))
    pool = [np.array([1.0, 2.0]), np.array([3.0, 4.0]), np.array([5.0, 6.0])]
    prev = None
    t = hlib.T0
    t_last = None
    for k in range(n):
        which = ctx.choice(f"buf{k}", len(pool))
        view = ctx.flag(f"view{k}")
        arr = pool[which][::-1] if view else pool[which]
        if ctx.flag(f"pull_before{k}") and t_last is not None:
            inp.pull_data(t_last)  # the consumer catches up: history shrinks to one entry
        t = t + hlib.DAY
        shares = prev is not None and prev == which
        try:
            out.push_data(arr, t)
            res = "accepted"
        except FinamDataError:
            res = "refused"
        ctx.cover(res)
        ctx.check(res == ("refused" if shares else "accepted"), "memory-sharing-rule",
                  {"sig": f"shares={shares}:got={res}:history={len(out.data)}"})
        if res == "accepted":
            prev = which
            t_last = t


def h_repeat(ctx):
    """The same publication delivered several times (two consumers, repeated pulls) over links that need a grid
    transform and a unit conversion: every delivery must equal the converted published data, and the publication
    kept by the output must stay what was published.  Float payloads (in-place arithmetic only exists for them)."""
    hlib.reset_finam_state()
    src_kind = ["esri", "uniform_rev", "uniform", "square_rev"][ctx.choice("src_grid", 4)]
    g_src = {"esri": lambda: fm.EsriGrid(ncols=3, nrows=2),
             "uniform_rev": lambda: fm.UniformGrid((4, 3), axes_reversed=True),
             "uniform": lambda: fm.UniformGrid((4, 3)),
             # square domain: the reversed grid's arrays are indexed [y, x] but have the same shape as [x, y]
             "square_rev": lambda: fm.UniformGrid((4, 4), axes_reversed=True)}[src_kind]()
    g_dst = fm.UniformGrid((4, 4) if src_kind == "square_rev" else (4, 3), axes_increase=[True, True])
    pu, cu = [("m", "mm"), ("m", "m"), ("degC", "K")][ctx.choice("units", 3)]
    out = fm.Output(name="out", info=fm.Info(time=hlib.T0, grid=g_src, units=pu))
    ins = [fm.Input(name=f"in{k}", info=fm.Info(time=hlib.T0, grid=g_dst, units=cu)) for k in range(2)]
    for i in ins:
        out >> i
    for i in ins:
        i.ping()
    for i in ins:
        i.exchange_info()
    shape = tuple(g_src.data_shape)
    pub = np.arange(int(np.prod(shape)), dtype=float).reshape(shape) + 1.0
    keep = pub.copy()
    out.push_data(pub, hlib.T0)
    c0 = float(fm.UNITS.Quantity(0.0, pu).to(cu).magnitude)
    c1 = float(fm.UNITS.Quantity(1.0, pu).to(cu).magnitude)
    first = None
    order = [ctx.choice(f"who{k}", 2) for k in range(3)]
    for k, who in enumerate(order):
        d = ins[who].pull_data(hlib.T0)
        m = np.asarray(d.magnitude, dtype=float)
        if first is None:
            first = m.copy()
        ctx.check(bool(np.allclose(m, first)), "repeated-delivery-differs", {"sig": f"{src_kind}:{pu}->{cu}:pull{k}"})
        ctx.check(bool(np.allclose(np.sort(m.ravel()), np.sort((keep * (c1 - c0) + c0).ravel()))),
                  "delivery-not-the-converted-publication", {"sig": f"{src_kind}:{pu}->{cu}:pull{k}"})
        if src_kind == "esri":
            # ESRI arrays are indexed [row from the top, column]; the consumer grid [x, y] with y increasing
            conv = keep * (c1 - c0) + c0
            mm = m[0] if m.ndim == 3 else m
            ok = all(abs(mm[x, y] - conv[conv.shape[0] - 1 - y, x]) <= 1e-9 * max(1.0, abs(conv[conv.shape[0] - 1 - y, x]))
                     for x in range(mm.shape[0]) for y in range(mm.shape[1]))
            ctx.check(bool(ok), "delivered-values-at-other-cells", {"sig": f"{src_kind}:{pu}->{cu}:pull{k}"})
        if src_kind == "square_rev":
            # value published for cell (y, x) of the [y, x]-indexed source arrives at [x, y]
            ctx.check(bool(np.allclose(m[0] if m.ndim == 3 else m, (keep * (c1 - c0) + c0).T)),
                      "delivered-values-at-other-cells", {"sig": f"{src_kind}:{pu}->{cu}:pull{k}"})
    ctx.check(bool(np.array_equal(pub, keep)), "published-array-modified", {"sig": f"{src_kind}:{pu}->{cu}"})
    stored = np.asarray(out.data[-1][1].magnitude, dtype=float)
    ctx.check(bool(np.allclose(stored.reshape(-1), keep.reshape(-1))), "retained-publication-modified",
              {"sig": f"{src_kind}:{pu}->{cu}"})
    ctx.cover("done")


EXPLANATION = (
    "Bounded symbolic execution (own proxy engine symx + z3) of the real Output.push_data / "
    "Output.get_data / Output._interpolate / Input.pull_data code: publication gaps and request times "
    "are unbounded integer microsecond variables, every branch of the real code on them is explored on "
    "both feasible sides, and the nearest-publication / in-range oracle is posed as PC ∧ ¬property. "
    "Family 'payload': symbolic real values in every payload form (array, list, flat in grid order, with time axis, "
    "masked, scalar; optionally as a quantity in foreign units) x grid kind (NoGrid 0/1-d, Uniform cells F / points C, "
    "ESRI, unstructured) x unit pair (equal, factor, offset, foreign) through the real tools.prepare / Output.push_data / "
    "Input.pull_data / to_units: z3 refutes delivered ≠ a·v+b (pint's a, b), shape = (1,)+grid shape, units, mask; a "
    "second publication of the same array is refused."
)
ASSUMPTIONS = ["single consumer, requests non-decreasing (the documented pull discipline)"]


def families(tier):
    q = tier == "quick"
    fams = [
        dict(name="nearest", ref="vf.props.c08:h_nearest",
             params={"k": 4, "m": 3} if q else {"k": 5, "m": 3},
             bounds="k publications (4 quick, 5 thorough), 3 non-decreasing requests; gaps >= 1 us",
             must_cover=["served", "refused"]),
    ]
    for pat in (["PPRPRPR"] if q else ["PPRPRPR", "PPPRPRR", "PRPPRPR"]):
        for spill in (False, True):
            fams.append(dict(
                name=f"interleaved:{pat}{':spilled' if spill else ''}", ref="vf.props.c08:h_interleaved",
                params={"pattern": pat, "spill": spill},
                bounds=f"event pattern {pat} (P publish, R request inside the published range, non-decreasing); symbolic "
                       f"gaps and request times" + ("; memory limit 0: every retained publication is a spill file" if spill else ""),
                must_cover=["served"], **({"workers": 4} if spill else {})))
    if not q:
        from .. import chsrc
        fams.append(dict(name="crosshair:nearest", kind="crosshair", ref="vf.chrun:replay", src=chsrc.NEAREST, params={},
                         bounds="CrossHair on Output._interpolate with 3-4 publications, gaps <= 10^6 / 10^4 us (independent second encoding; inconclusive results are reported, not counted)",
                         per_condition_timeout=60, must_cover=["ran"]))
    fams.append(dict(name="sharing", ref="vf.props.c08:h_sharing", params={"pushes": 3 if q else 4},
                     bounds="every sequence of 3-4 publications drawn from three buffers (or reversed views of them), with or "
                            "without the consumer catching up in between", must_cover=["accepted", "refused"]))
    fams.append(dict(name="repeat", ref="vf.props.c08:h_repeat", params={},
                     bounds="float payload; source grid ESRI / reversed / plain x units (factor, none, offset) x every order of "
                            "three pulls by two consumers of the same publication", must_cover=["done"]))
    fams.append(dict(name="payload", ref="vf.props.c08:h_payload", params={},
                     bounds="6 grid kinds x 5 unit set-ups x 6 payload forms, symbolic values",
                     must_cover=["delivered", "sharing-refused"]))
    return fams
