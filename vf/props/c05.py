"""C05 -- the coupling outcome is independent of listing and linking order."""
import itertools

from .. import sched, topos

EXPLANATION = (
    "Bounded symbolic execution (symx proxies + z3) of a PRODUCT harness: inside one explored path the same scenario "
    "(same symbolic start offsets, steps, delays, end) is built and run twice through the real Composition.connect/run "
    "-- once in reference order and once with the component list and the link-creation order permuted. z3 must refute "
    "PC ∧ (final time / request time / received value / exchanged time differs); outcome class, exchanged infos and "
    "series lengths are compared per path. The permutation itself is a finite case split (one family per permutation); "
    "the solver's contribution is 'for all step ratios and offsets, ties included'. " + sched.RUN_FUNCTIONS_NOTE
)
ASSUMPTIONS = ["end time strictly after the composition start (run() with end <= start performs exactly one update of the "
               "first-listed least-advanced component; degenerate, excluded -- see DESIGN.md)",
               "producers declare units and grid; adapters from {none, Scale, NextTime, LinearTime, DelayFixed}",
               "runs with more than the stated number of updates (in the reference order) are cut"]


def families(tier):
    q = tier == "quick"
    D = topos.DAGS
    table = [
        ("ab", D["ab"], 4, 6),
        ("ab_scale_linear", D["ab_scale_linear"], 3, 5),
        ("double_link", topos.DOUBLE_LINK, 3, 5),
        ("fan_in", D["fan_in"], 3, 4),
        ("fan_out", D["fan_out"], 0, 4),
        ("abc", D["abc"], 0, 4),
        ("a_p_b", D["a_p_b"], 3, 5),
        ("handshake", topos.HANDSHAKE, 3, 4),
        ("ring2_dfix", topos.RINGS_OK["ring2_dfix"], 3, 4),
        ("fan_out_late_first_pull", topos.FAN_OUT_LATE_FIRST_PULL, 4, 4),
        ("ab_required", topos.REQUIRED_IDIOM["ab_required"], 3, 4),
        ("fan_out_required", topos.REQUIRED_IDIOM["fan_out_required"], 2, 3),
        ("abc_required", topos.REQUIRED_IDIOM["abc_required"], 0, 3),
        ("tap_scale_and_linear", topos.TAPS["tap_scale_and_linear"], 2, 3),
        ("tap_shared_scale", dict(topos.TAPS["tap_shared_scale"], order=None), 2, 3),
        ("tap_shared_dfix", dict(topos.TAPS["tap_shared_dfix"], order=None), 3, 3),
    ]
    fams = []
    for name, topo, uq, ut in table:
        u = uq if q else ut
        if not u:
            continue
        n, m = len(topo["comps"]), len(topo["links"])
        perms = list(itertools.permutations(range(n)))
        lperms = list(itertools.permutations(range(m)))
        combos = [(po, lo) for po in perms for lo in lperms if not (po == perms[0] and lo == lperms[0])]
        if name == "tap_shared_dfix":
            # expensive (delay + two clocks): the producer listed last / first, reference link order
            combos = [c for c in combos if c[1] == lperms[0] and c[0] in ((2, 1, 0), (0, 2, 1))][: (1 if q else 2)]
        elif q and name == "tap_shared_scale":
            # all listing orders (the producer must also be tried BETWEEN its two consumers), reference link order
            combos = [c for c in combos if c[1] == lperms[0]]
        elif q and name == "fan_out_late_first_pull":
            combos = [c for c in combos if c == (perms[-1], lperms[0])]  # consumers swapped, reference link order
        elif q:
            # reversed listing + reversed linking, and each alone
            pick = {(perms[-1], lperms[-1]), (perms[-1], lperms[0]), (perms[0], lperms[-1])}
            combos = [c for c in combos if c in pick]
        elif name in ("fan_out_late_first_pull", "fan_out_required", "abc_required"):
            combos = combos[:: max(1, len(combos) // 4)]  # thorough: 4 spread-out permutation pairs (cost)
        elif len(combos) > 12:
            combos = combos[:: max(1, len(combos) // 12)]
        for po, lo in combos:
            fams.append(dict(
                name=f"order:{name}:{''.join(map(str, po))}:{''.join(map(str, lo))}", ref="vf.sched:h_order",
                params={"topo": topo, "order": list(po), "link_order": list(lo), "max_updates": u},
                bounds=f"topology {name}; listing order {po}, link creation order {lo} vs reference; symbolic offsets, "
                       f"steps, delays, end; reference runs with more than {u} updates are cut",
                must_cover=["ref:ok"]))
    return fams
