"""C10 -- spilling data to disk is invisible and leaves no files behind."""
from __future__ import annotations

import os
import shutil
import tempfile
from datetime import timedelta

import numpy as np

from .. import hlib, symx
from ..hlib import fm

GRID = lambda: fm.UniformGrid((3, 4))  # noqa: E731  cells -> data shape (2, 3), 48 bytes per payload
NBYTES = 48


class Producer(fm.TimeComponent):
    def __init__(self, start, step, masked, units="m"):
        super().__init__()
        self._time = start
        self.step = step
        self.masked = masked
        self.units = units
        self.k = 0

    def _next_time(self):
        return self.time + self.step

    def payload(self, k):
        a = np.arange(6, dtype=float).reshape(2, 3) * 0.5 + 10.0 * k
        if self.masked:
            m = np.zeros((2, 3), dtype=bool)
            m[k % 2, (k + 1) % 3] = True
            m[0, 0] = True
            return np.ma.masked_array(a, mask=m)
        return a

    def _initialize(self):
        self.outputs.add(name="Out", time=self.time, grid=GRID(), units=self.units)
        self.create_connector()

    def _connect(self, start_time):
        self.try_connect(start_time, push_data={"Out": self.payload(0)})

    def _validate(self):
        pass

    def _update(self):
        self._time += self.step
        self.k += 1
        self.outputs["Out"].push_data(self.payload(self.k), self.time)

    def _finalize(self):
        pass


class Recorder(fm.TimeComponent):
    def __init__(self, start, step):
        super().__init__()
        self._time = start
        self.step = step
        self.got = []

    def _next_time(self):
        return self.time + self.step

    def _initialize(self):
        self.inputs.add(name="In", time=self.time, grid=None, units=None)
        self.create_connector(pull_data=["In"])

    def _connect(self, start_time):
        self.try_connect(start_time)
        if self.status == fm.ComponentStatus.CONNECTED:
            self._rec(self.connector.in_data["In"])

    def _rec(self, d):
        m = d.magnitude
        self.got.append((np.array(np.ma.getdata(m), dtype=float).copy(),
                         np.array(np.ma.getmaskarray(m)).copy(), str(d.units), type(m).__name__))

    def _validate(self):
        pass

    def _update(self):
        self._time += self.step
        self._rec(self.inputs["In"].pull_data(self.time))

    def _finalize(self):
        pass


def make_adapter(kind):
    A = fm.adapters
    return {
        "output": None, "next": A.NextTime, "prev": A.PreviousTime, "linear": A.LinearTime,
        "step": lambda: A.StepTime(0.5), "stack": A.StackTime, "avg": A.AvgOverTime,
        "avg_step": lambda: A.AvgOverTime(step=0.0),
        "sum": lambda: A.SumOverTime(per_time=False), "sum_per_time": lambda: A.SumOverTime(per_time=True),
    }[kind]


def scenario(kind, masked, limit, how, location, cstep_h, npub, second_h=None):
    """One complete run; returns (received list, saved file names, files left, exception)."""
    prod = Producer(hlib.T0, timedelta(days=1), masked, units="m/s" if "per_time" in kind else "m")
    cons = Recorder(hlib.T0, timedelta(hours=cstep_h))
    cons2 = Recorder(hlib.T0, timedelta(hours=second_h)) if second_h else None
    kw = {}
    if how == "composition":
        kw = dict(slot_memory_limit=limit, slot_memory_location=location)
    elif how == "slot_limit_composition_location":
        kw = dict(slot_memory_location=location)
    comp = hlib.make_composition([prod, cons] + ([cons2] if cons2 else []), **kw)
    mk = make_adapter(kind)
    ada = mk() if mk else None
    if ada is not None:
        prod.outputs["Out"] >> ada >> cons.inputs["In"]
    else:
        prod.outputs["Out"] >> cons.inputs["In"]
    if cons2 is not None:
        prod.outputs["Out"] >> cons2.inputs["In"]
    if how in ("slot", "slot_limit_composition_location"):
        slot = ada if ada is not None else prod.outputs["Out"]
        slot.memory_limit = limit
        if how == "slot":
            slot.memory_location = location
    saved = []
    orig_save = np.save
    orig_dump = np.ma.MaskedArray.dump

    def spy_save(fn, *a, **k):
        saved.append(str(fn))
        return orig_save(fn, *a, **k)

    def spy_dump(self_, fn):
        saved.append(str(fn))
        return orig_dump(self_, fn)

    exc = None
    np.save = spy_save
    np.ma.MaskedArray.dump = spy_dump
    try:
        comp.run(end_time=hlib.T0 + timedelta(days=npub - 1))
    except (symx.PathAbort, symx.SymbolicLeak, symx.HarnessError):
        raise
    except Exception as e:  # pylint: disable=broad-except
        exc = e
    finally:
        np.save = orig_save
        np.ma.MaskedArray.dump = orig_dump
    left = sorted(os.listdir(location)) if location and os.path.isdir(location) else []
    return cons.got + (cons2.got if cons2 else []), saved, left, exc


def h_spill(ctx):
    p = ctx.params
    kind, masked = p["kind"], p["masked"]
    cstep_h, npub = p.get("cstep_h", 36), p.get("npub", 5)
    second_h = p.get("second_h")
    hlib.reset_finam_state()
    limit = ctx.int("limit", lo=-1, hi=NBYTES * (npub + 2))
    how = ["composition", "slot", "slot_limit_composition_location"][ctx.choice("how", 3)]
    ref, _s, _l, ref_exc = scenario(kind, masked, None, "slot", None, cstep_h, npub, second_h)
    if ref_exc is not None:
        raise symx.HarnessError(f"reference run without limit failed: {ref_exc!r}")
    top = tempfile.mkdtemp(prefix="vf_c10_")
    # a location handed to the composition need not exist yet (the composition creates it); one set on a slot must
    loc = top if how == "slot" else os.path.join(top, "spill")
    try:
        got, saved, left, exc = scenario(kind, masked, limit, how, loc, cstep_h, npub, second_h)
    finally:
        shutil.rmtree(top, ignore_errors=True)
    sig = f"{kind}:{'masked' if masked else 'plain'}"
    ctx.log("n_saved", len(saved))
    ctx.cover("spilled" if saved else "all-in-ram")
    if exc is not None:
        ctx.log("exc", type(exc).__name__)
        ctx.fail("run-with-limit-fails", {"sig": sig + ":" + type(exc).__name__, "error": str(exc)[:160]})
        return
    same = len(got) == len(ref)
    if same:
        for (a, am, au, at), (b, bm, bu, bt) in zip(got, ref):
            if a.shape != b.shape or au != bu or not np.array_equal(am, bm) \
                    or not np.allclose(a[~am], b[~bm], rtol=1e-12, atol=0):
                same = False
                break
    ctx.check(same, "delivered-data-differs-from-unlimited-run", {"sig": sig})
    ctx.check(all(os.path.dirname(os.path.abspath(f)) == os.path.abspath(loc) for f in saved),
              "spill-file-outside-configured-location", {"sig": sig})
    ctx.check(len(left) == 0, "spill-files-left-after-finalize", {"sig": sig, "left": len(left)})


EXPLANATION = (
    "Bounded symbolic execution (symx proxies + z3) with the MEMORY LIMIT as a symbolic integer: the real "
    "Output._pack / TimeCachingAdapter buffers compare 0 <= limit < total + size on it, so the engine enumerates the "
    "limit intervals that lead to different spill decisions (negative = off, 0, between any two cumulative sizes, "
    "above everything), for a limit set on the slot or composition-wide. Real file I/O into a fresh directory per "
    "path. Oracle: differential against the identical real run without limit (every array received by the consumer, "
    "masks and units included), every np.save target directly under the configured location, directory empty after "
    "run() returned. Times and payloads are concrete here; the solver's part is the complete case split over limits."
)
ASSUMPTIONS = ["payloads are 2x3 float64 arrays (48 bytes); daily publications; consumer step 36 h (direct pulls from the output also 32 h; 24, 60 and 8 h in thorough)"]


def families(tier):
    q = tier == "quick"
    fams = []
    kinds = ["output", "next", "prev", "linear", "step", "stack", "avg", "avg_step", "sum", "sum_per_time"]
    for kind in kinds:
        for masked in (False, True):
            variants = [(36, 5)] if q else [(36, 5), (24, 5), (60, 6), (36, 7)]
            if kind == "output":
                # direct pulls strictly between two publications: nearer the older one (32 h), nearer the newer one
                # (64 h), on a publication (96 h); 8 h: three pulls per publication interval
                variants = variants + ([(32, 5)] if q else [(32, 6), (8, 4)])
            for cstep_h, npub in variants:
                fams.append(dict(
                    name=f"spill:{kind}:{'masked' if masked else 'plain'}:{cstep_h}h:{npub}",
                    ref="vf.props.c10:h_spill",
                    params={"kind": kind, "masked": masked, "cstep_h": cstep_h, "npub": npub},
                    bounds=f"buffering slot {kind}; {'masked' if masked else 'plain'} payload; {npub} daily publications, "
                           f"consumer step {cstep_h} h; limit symbolic in [-1, {NBYTES * (npub + 2)}] bytes, per slot or "
                           f"composition-wide",
                    must_cover=["spilled", "all-in-ram"], workers=4))
    # a second, slower consumer directly on the output: several publications are still buffered at finalization
    for kind in (("output", "linear") if q else ("output", "linear", "next", "avg")):
        for masked in (False, True):
            fams.append(dict(
                name=f"spill2:{kind}:{'masked' if masked else 'plain'}", ref="vf.props.c10:h_spill",
                params={"kind": kind, "masked": masked, "cstep_h": 24, "npub": 5, "second_h": 60},
                bounds=f"as spill:{kind} with daily consumer plus a second consumer (step 60 h) directly on the output; run "
                       f"ends with several publications still buffered",
                must_cover=["spilled", "all-in-ram"], workers=4))
    return fams
