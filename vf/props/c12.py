"""C12 -- time integration adapters conserve the integral."""
from __future__ import annotations

from datetime import timedelta

import numpy as np

from .. import hlib, symx
from ..hlib import fm
from finam.errors import FinamNoDataError, FinamTimeError


def _secs(td):
    return td.total_seconds()


def _mx(a, b):
    return a if bool(a >= b) else b


def _mn(a, b):
    return a if bool(a <= b) else b


def integral(kind_step, times, vals, p0, p1, per_time):
    """Exact integral over [p0, p1] of the linear (kind_step None) or step interpolant.
    Written from the definition; located path-wise (forks), so the result is an If-free term.
    Returns (integral term in value*seconds or relative units, contributing value terms)."""
    total = 0
    contrib = []
    for i in range(len(times) - 1):
        ta, tb = times[i], times[i + 1]
        if bool(p1 <= ta) or bool(p0 >= tb):
            continue
        a = _mx(p0, ta)
        b = _mn(p1, tb)
        g = _secs(tb - ta)
        va, vb = vals[i], vals[i + 1]
        xa = _secs(a - ta)
        xb = _secs(b - ta)
        if kind_step is None:
            fa = va + (vb - va) * (xa / g)
            fb = va + (vb - va) * (xb / g)
            part = (xb - xa) * (fa + fb) / 2
            contrib += [va, vb]
        else:
            sw = kind_step * g  # switch position (seconds after ta): old value up to and including it
            lo_old, hi_old = xa, _mn(xb, sw)
            len_old = hi_old - lo_old if bool(hi_old > lo_old) else 0
            lo_new, hi_new = _mx(xa, sw), xb
            len_new = hi_new - lo_new if bool(hi_new > lo_new) else 0
            part = va * len_old + vb * len_new
            if not isinstance(len_old, int):
                contrib.append(va)
            if not isinstance(len_new, int):
                contrib.append(vb)
        if not per_time:
            part = part / g
        total = total + part
    return total, contrib


def h_integ(ctx):
    p = ctx.params
    which, pattern, gaps_c = p["adapter"], p["pattern"], p.get("gaps")
    linear = p.get("linear", True)
    hlib.reset_finam_state()
    t0 = ctx.dt("t0") if gaps_c is None else (hlib.T0 if ctx.concrete else symx.SymDT.const(hlib.T0))
    step = None if linear else (p["step_value"] if "step_value" in p else ctx.real("step", lo=0, hi=1))
    per_time = which in ("avg", "sum_per_time")
    mk = {
        "avg": lambda: fm.adapters.AvgOverTime(step=step),
        "sum_per_time": lambda: fm.adapters.SumOverTime(step=step, per_time=True),
        "sum_abs": lambda: fm.adapters.SumOverTime(step=step, per_time=False),
    }[which]
    units = "m/s" if which == "sum_per_time" else "m"
    ada, twin = mk(), mk()
    out, inp = hlib.linked_pair(fm.Info(time=t0, grid=fm.NoGrid(1), units=units), adapters=[ada])
    out2, inp2 = hlib.linked_pair(fm.Info(time=t0, grid=fm.NoGrid(1), units=units), adapters=[twin])
    times, vals = [], []
    prev = t0
    ri = 0
    total_real = 0
    for ev in pattern:
        if ev == "P":
            i = len(times)
            if i == 0:
                t = t0
            elif gaps_c is not None:
                t = times[-1] + timedelta(microseconds=gaps_c[i - 1])
            else:
                t = times[-1] + ctx.td(f"g{i - 1}", lo_us=1)
            v = ctx.real(f"v{i}")
            out.push_data(np.array([v], dtype=object), t)
            out2.push_data(np.array([v], dtype=object), t)
            times.append(t)
            vals.append(v)
            continue
        r = ctx.dt(f"p{ri}")
        ctx.assume(r > prev)
        try:
            d = inp.pull_data(r)
            res = "ok"
        except FinamTimeError:
            res = "time-error"
        ctx.cover("pull:" + res)
        if res != "ok":
            ctx.log(f"pull{ri}", res)
            ctx.check(r > times[-1], "refused-inside-published-range", {"sig": which})
            return
        got = hlib.scalar_of(d)
        ctx.log(f"pull{ri}", got)
        ctx.check(r <= times[-1], "extrapolated", {"sig": which})
        exp, contrib = integral(step, times, vals, prev, r, per_time)
        if which == "avg":
            exp = exp / _secs(r - prev)
        ctx.check(ctx.eq(got, exp), "delivered-differs-from-exact-integral",
                  {"sig": f"{which}:{'linear' if linear else 'step'}"})
        exp_units = fm.UNITS.Unit("m")
        ctx.check(d.units == exp_units, "units-of-integral", {"sig": which, "units": str(d.units)})
        if which == "avg" and contrib and p.get("range_check", True):
            lo = None
            hi = None
            for c in contrib:
                cl = got >= c
                ch = got <= c
                lo = cl if lo is None else (lo | cl)
                hi = ch if hi is None else (hi | ch)
            ctx.check(lo & hi, "average-outside-range-of-contributing-values", {"sig": which})
        total_real = total_real + got
        prev = r
        ri += 1
    # re-partition: a twin adapter that pulls only once over the whole period
    if which != "avg" and ri >= 2:
        d2 = inp2.pull_data(prev)
        ctx.check(ctx.eq(hlib.scalar_of(d2), total_real), "total-depends-on-partition", {"sig": which})
        ctx.cover("repartition")


def contributing(kind_step, times, p0, p1, eps=0):
    """Indices of the publications the exact integral over [p0, p1] depends on (from the definition).

    Returns (certain, possible): equal for eps == 0 (symbolic mode, exact arithmetic); in the concrete
    cross-validation the switch position ``step * gap`` is a rounded float, so pieces shorter than eps
    seconds may or may not be seen by the implementation."""
    lo, hi = set(), set()
    for i in range(len(times) - 1):
        ta, tb = times[i], times[i + 1]
        if bool(p1 <= ta) or bool(p0 >= tb):
            continue
        if kind_step is None:
            lo |= {i, i + 1}
            hi |= {i, i + 1}
            continue
        a = _mx(p0, ta)
        b = _mn(p1, tb)
        g = _secs(tb - ta)
        xa = _secs(a - ta)
        xb = _secs(b - ta)
        sw = kind_step * g
        len_old = _mn(xb, sw) - xa
        len_new = xb - _mx(xa, sw)
        if bool(len_old > eps):
            lo.add(i)
        if bool(len_new > eps):
            lo.add(i + 1)
        if eps:
            if len_old > -eps:
                hi.add(i)
            if len_new > -eps:
                hi.add(i + 1)
    return lo, (hi if eps else set(lo))


def h_missing(ctx):
    """Missing values (NaN / masked cells) reach a delivered integral only through publications that the
    integral depends on.  Payload elements are hlib.Dep objects (dependency sets propagated by the real
    arithmetic of the adapter, also through zero weights -- like 0*nan and 0*masked)."""
    p = ctx.params
    which, pattern, gaps_c = p["adapter"], p["pattern"], p["gaps"]
    linear = p.get("linear", True)
    hlib.reset_finam_state()
    t0 = hlib.T0 if ctx.concrete else symx.SymDT.const(hlib.T0)
    step = None if linear else ctx.real("step", lo=0, hi=1)
    mk = {
        "avg": lambda: fm.adapters.AvgOverTime(step=step),
        "sum_per_time": lambda: fm.adapters.SumOverTime(step=step, per_time=True),
        "sum_abs": lambda: fm.adapters.SumOverTime(step=step, per_time=False),
    }[which]
    units = "m/s" if which == "sum_per_time" else "m"
    out, inp = hlib.linked_pair(fm.Info(time=t0, grid=fm.NoGrid(1), units=units), adapters=[mk()])
    times = []
    prev = t0
    ri = 0
    for ev in pattern:
        if ev == "P":
            i = len(times)
            t = t0 if i == 0 else times[-1] + timedelta(microseconds=gaps_c[i - 1])
            out.push_data(np.array([hlib.Dep({i})], dtype=object), t)
            times.append(t)
            continue
        r = ctx.dt(f"p{ri}")
        ctx.assume(r > prev)
        try:
            d = inp.pull_data(r)
            res = "ok"
        except FinamTimeError:
            res = "time-error"
        ctx.cover("pull:" + res)
        if res != "ok":
            ctx.log(f"pull{ri}", res)
            return
        got = hlib.scalar_of(d)
        if not isinstance(got, hlib.Dep):
            ctx.fail("payload-replaced", {"sig": which, "type": type(got).__name__})
            return
        exp, exp_hi = contributing(step, times, prev, r, eps=1e-7 if ctx.concrete else 0)
        ctx.log(f"pull{ri}", "ok")
        extra = sorted(got.deps - exp_hi)
        lost = sorted(exp - got.deps)
        sig = f"{which}:{'linear' if linear else 'step'}"
        ctx.check(not extra, "missing-value-leaks-from-noncontributing-publication",
                  {"sig": sig, "extra": extra, "used": sorted(got.deps), "contributing": sorted(exp)})
        ctx.check(not lost, "contributing-publication-ignored",
                  {"sig": sig, "lost": lost, "used": sorted(got.deps), "contributing": sorted(exp)})
        prev = r
        ri += 1


def h_inductive(ctx):
    """One pull from an ARBITRARY state of an integration adapter.

    State: buffered publications t_0 < .. < t_{m-1} (concrete irregular gaps, symbolic values), the previous
    pull time p (= _prev_time) and the pull before it q <= p that the last clearing used.  Invariant of the real
    clearing rule:  t_0 <= q <= p <= t_{m-1};  m > 1 -> t_1 > q.  Pull at r > p: the result must be the exact
    integral (sum) / average over [p, r] of the interpolant of the buffered series, and the invariant must hold
    again with (q, p) := (p, r)."""
    par = ctx.params
    which, linear = par["adapter"], par.get("linear", True)
    gaps = par["gaps"]
    hlib.reset_finam_state()
    t0 = hlib.T0 if ctx.concrete else symx.SymDT.const(hlib.T0)
    step = None if linear else ctx.real("step", lo=0, hi=1)
    per_time = which in ("avg", "sum_per_time")
    mk = {
        "avg": lambda: fm.adapters.AvgOverTime(step=step),
        "sum_per_time": lambda: fm.adapters.SumOverTime(step=step, per_time=True),
        "sum_abs": lambda: fm.adapters.SumOverTime(step=step, per_time=False),
    }[which]
    units = "m/s" if which == "sum_per_time" else "m"
    ada = mk()
    out, inp = hlib.linked_pair(fm.Info(time=t0, grid=fm.NoGrid(1), units=units), adapters=[ada])
    m = len(gaps) + 1
    times, vals = [t0], [ctx.real("v0")]
    for i in range(1, m):
        times.append(times[-1] + timedelta(microseconds=gaps[i - 1]))
        vals.append(ctx.real(f"v{i}"))
    ada.data = [(t, fm.UNITS.Quantity(np.array([v], dtype=object), units)) for t, v in zip(times, vals)]
    q = ctx.dt("q")
    p = ctx.dt("p")
    ctx.assume((times[0] <= q) & (q <= p) & (p <= times[-1]))
    if m > 1:
        ctx.assume(times[1] > q)
    ada._prev_time = p
    r = ctx.dt("r")
    ctx.assume(r > p)
    try:
        d = inp.pull_data(r)
        res = "ok"
    except FinamTimeError:
        res = "time-error"
    ctx.cover("pull:" + res)
    if res != "ok":
        ctx.log("pull", res)
        ctx.check(r > times[-1], "refused-inside-buffered-range", {"sig": which})
        return
    got = hlib.scalar_of(d)
    ctx.log("pull", got)
    exp, _c = integral(step, times, vals, p, r, per_time)
    if which == "avg":
        exp = exp / _secs(r - p)
    ctx.check(ctx.eq(got, exp), "delivered-differs-from-exact-integral",
              {"sig": f"{which}:{'linear' if linear else 'step'}:inductive"})
    post = [bt for bt, _ in ada.data]
    ctx.check(ctx.eq(ada._prev_time, r), "prev-time-not-updated")
    ctx.check(post[0] <= p, "inv-discarded-entry-still-needed", {"sig": which})
    if len(post) > 1:
        ctx.check(post[1] > p, "inv-buffer-longer-than-needed", {"sig": which})


EXPLANATION = (
    "Bounded symbolic execution (symx proxies + z3) of the real AvgOverTime/SumOverTime._interpolate, "
    "TimeIntegrationAdapter._source_updated/_get_data and SumOverTime._get_info behind a real Output and in front of a "
    "real Input. Publication values are symbolic reals, pull times symbolic integer microseconds, the step position a "
    "symbolic real in [0,1]; gaps are concrete irregular (family 'gaps') or symbolic (family 'symgaps'). The oracle "
    "integrates the linear/step interpolant of the published series over [previous pull, pull] piece by piece from "
    "the definition (located by its own forks, so If-free polynomial terms) and z3 (nonlinear real arithmetic) must "
    "refute delivered ≠ integral (per-time: value·seconds; absolute: interval-relative weights; average: divided by "
    "the elapsed seconds); additionally total over a partition = one pull over the whole period (twin adapter), "
    "average within [min,max] of contributing values, delivered units = input units · s reduced (pint, concrete). "
    "The ':missing' families publish hlib.Dep elements (sets of publication indices propagated by the adapter's real "
    "arithmetic, also through zero weights like 0*nan / 0*masked) and require the delivered set to be exactly the set of "
    "publications the integral over [previous pull, pull] depends on (located from the definition with the same forks). "
    "Obligations z3 answers 'unknown' within the time limit are counted and excluded from the claim."
)
ASSUMPTIONS = ["pull times strictly increase (p0 < p1)", "floats as reals; timedelta.total_seconds() exact"]


def families(tier):
    q = tier == "quick"
    fams = []
    pats = ["PPPRR", "PPPPRRR"] if q else ["PPPRR", "PPPPRRR", "PPRPRR", "PPPPPRRR"]
    for which in ("avg", "sum_per_time", "sum_abs"):
        for linear in (True, False):
            for pat in pats:
                npub = pat.count("P")
                gaps = [3000000, 1000000, 5000000, 2000000][: npub - 1]
                fams.append(dict(
                    name=f"{which}:{'linear' if linear else 'step'}:{pat}:gaps", ref="vf.props.c12:h_integ",
                    params={"adapter": which, "pattern": pat, "gaps": gaps, "linear": linear},
                    bounds=f"{which}, {'linear' if linear else 'step (symbolic position in [0,1])'} interpolation; pattern "
                           f"{pat}; concrete irregular gaps {gaps} us; symbolic values and strictly increasing pulls",
                    must_cover=["pull:ok"], query_timeout_ms=20000))
            if not linear:
                # the end points of the step-position range as plain Python numbers (what a user writes)
                for sv in ((0.0, 1.0) if q else (0.0, 1.0, 0, 1, 0.5)):
                    fams.append(dict(
                        name=f"{which}:step={sv!r}:PPPPRRR:gaps", ref="vf.props.c12:h_integ",
                        params={"adapter": which, "pattern": "PPPPRRR", "gaps": [3000000, 1000000, 5000000],
                                "linear": False, "step_value": sv},
                        bounds=f"{which}, step interpolation with the concrete step position {sv!r}; pattern PPPPRRR; concrete "
                               f"irregular gaps; symbolic values and strictly increasing pulls",
                        must_cover=["pull:ok"], query_timeout_ms=20000))
            fams.append(dict(
                name=f"{which}:{'linear' if linear else 'step'}:missing", ref="vf.props.c12:h_missing",
                params={"adapter": which, "pattern": "PPPPRRR" if q else "PPPPPRRR",
                        "gaps": [3000000, 1000000, 5000000, 2000000][: (3 if q else 4)], "linear": linear},
                bounds=f"{which}, {'linear' if linear else 'step (symbolic position in [0,1])'}; missing-value "
                       f"dependency sets (hlib.Dep payloads) for {4 if q else 5} publications with concrete irregular "
                       f"gaps and 3 symbolic strictly increasing pulls",
                must_cover=["pull:ok"], query_timeout_ms=20000))
            fams.append(dict(
                name=f"{which}:{'linear' if linear else 'step'}:inductive", ref="vf.props.c12:h_inductive",
                params={"adapter": which, "linear": linear, "gaps": [3000000, 1000000, 5000000][: (2 if q else 3)]},
                bounds=f"{which}, {'linear' if linear else 'step'}; ONE pull from an arbitrary adapter state (previous pull "
                       f"times q <= p symbolic, buffer of {3 if q else 4} publications with concrete irregular gaps and "
                       f"symbolic values) satisfying the clearing invariant",
                must_cover=["pull:ok", "pull:time-error"], query_timeout_ms=20000))
            if not q:
                fams.append(dict(
                    name=f"{which}:{'linear' if linear else 'step'}:PPPRR:symgaps", ref="vf.props.c12:h_integ",
                    params={"adapter": which, "pattern": "PPPRR", "gaps": None, "linear": linear,
                            "range_check": False},
                    bounds=f"{which}, {'linear' if linear else 'step'}; pattern PPPRR; symbolic gaps >= 1 us",
                    must_cover=["pull:ok"], query_timeout_ms=8000))
    for f in fams:
        if q:
            # z3 occasionally answers 'unknown' for a path condition mixing the symbolic step position with integer
            # times within the time limit (seen once with exploration seed 1): such paths are counted
            # (paths_inconclusive_solver_unknown) and are outside the claim, exactly as in the thorough tier
            f["allow_inconclusive_paths"] = True
            f["bounds"] += "; paths whose condition z3 cannot decide within the time limit are counted and excluded"
        if not q:
            # thorough tier (5 publications / symbolic gaps): nonlinear obligations go to a fresh solver so that the
            # incremental solver deciding branch feasibility is not slowed down by them (see symx.Ctx.check)
            f["isolate_checks"] = True
            # z3 occasionally answers 'unknown' for a mixed integer/real (symgaps: nonlinear) path condition within the
            # time limit; such paths are counted (paths_inconclusive_solver_unknown) and are outside the claim
            f["allow_inconclusive_paths"] = True
            f["bounds"] += "; paths whose condition z3 cannot decide within the time limit are counted and excluded"
            f["query_timeout_ms"] = 30000 if "symgaps" not in f["name"] else 10000
    return fams
