"""C04 -- unresolvable dependency cycles are reported; delay-resolved cycles run."""
from .. import sched, topos

EXPLANATION = (
    "Bounded symbolic execution (symx proxies + z3) of the real Composition.connect/run on ring topologies. "
    "(a) Rings without a delay / dependency-breaking adapter: with equal starts every feasible path must end in "
    "FinamCircularCouplingError; with symbolic start offsets the run may also finish cleanly before the cycle bites, "
    "but never with RecursionError, a data/time error, any other exception, and the recursion depth stays <= ring size "
    "+ 1. (b) Rings whose DelayFixed adapters (1-3 of them, anywhere on the ring, split over links) are constrained by "
    "the assumption sum(delays) >= sum(largest step of each component): every feasible path must complete, with the "
    "C01 monitors (source has published up to the requested time; no request outside the retained range) holding "
    "throughout. " + sched.RUN_FUNCTIONS_NOTE
)
ASSUMPTIONS = [
    "one component of each ring has no initial pull (otherwise connect() itself reports the cycle: family all_initial_pull)",
    "claim limited to the listed ring shapes and runs within the stated number of updates",
]


def families(tier):
    q = tier == "quick"
    R, B = topos.RINGS_OK, topos.RINGS_BAD
    fams = []

    def ok(name, uq, ut):
        u = uq if q else ut
        if u:
            fams.append(sched.run_family("C04", "ok_" + name, R[name], u, props=["C04", "C01"],
                                         delay_sum_ge_steps=True))

    def bad(name, uq, ut, strict=False):
        u = uq if q else ut
        if not u:
            return
        topo = dict(B[name])
        if strict:
            topo["offsets"] = False
        fams.append(sched.run_family(
            "C04", ("strict_" if strict else "bad_") + name, topo, u,
            expect="cycle-error" if strict else "cycle-or-clean"))

    ok("ring2_dfix", 3, 5)
    ok("ring2_dfix_listed_ba", 0, 5)
    ok("ring2_dfix_dfix", 3, 4)
    ok("ring2_dfix_scale_dfix", 0, 4)
    ok("ring2_split_links", 3, 4)
    ok("ring2_three", 0, 4)
    ok("ring2_vary", 0, 4)
    ok("ring3_dfix", 0, 4)
    ok("ring3_split", 0, 4)
    ok("ring2_pull", 3, 4)
    ok("ring2_tail_in", 3, 4)
    ok("ring2_pull_delay_after", 3, 4)
    ok("ring2_dpull3", 4, 5)
    ok("ring_chord_shared_dfix", 5, 5)
    ok("ring2_dpull2_pulls_at_connect", 0, 4)
    bad("ring2", 4, 6)
    bad("ring2", 4, 6, strict=True)
    bad("ring2_scale", 0, 6)
    bad("ring2_listed_ba", 0, 6, strict=True)
    bad("ring3", 3, 4)
    bad("ring3", 3, 4, strict=True)
    bad("ring3_chord", 0, 4)
    bad("ring3_delayed_chord", 3, 4)
    bad("ring3_delayed_chord", 0, 4, strict=True)
    bad("ring2_tail", 0, 4)
    bad("ring2_pull", 4, 5)
    bad("ring2_pull", 4, 5, strict=True)
    bad("ring4", 0, 3, strict=True)
    bad("ring5", 0, 3, strict=True)
    bad("all_initial_pull", 2, 3, strict=True)
    # delays present on the ring but NOT constrained to be sufficient: circular error or a clean run, never
    # unbounded recursion / data errors
    for name, uq, ut in (("ring2_split_links", 3, 4), ("ring2_dfix", 3, 4), ("ring3_split", 0, 3), ("ring2_three", 0, 4)):
        u = uq if q else ut
        if u:
            fams.append(sched.run_family("C04", "free_" + name, R[name], u, props=["C04", "C01"],
                                         expect="cycle-or-clean",
                                         must_cover_labels=["outcome:circular", "outcome:ok"]))
    for name, topo in {**R, **({"ring3_chord_ok": topos.BIG_RINGS["ring3_chord_ok"]} if q else topos.BIG_RINGS)}.items():
        if name == "ring2_dfix_listed_ba":
            continue
        fams.append(sched.step_family("C04", "ok_" + name, topo, props=["C04", "C01"], delay_sum_ge_steps=True))
    return fams
