"""C17 -- units: compatibility is dimensional equality, conversion is physically exact."""
from __future__ import annotations

import numpy as np
import pint

from .. import hlib, symx
from ..hlib import fm
from finam.data import tools as dtools
from finam.data.tools import units as funits
from finam.errors import FinamDataError, FinamMetaDataError

CATALOGUE = [
    "m", "km", "mm", "cm", "s", "h", "d", "kg", "g", "m/s", "km/h", "mm/d", "m s-1", "kg m-2 s-1", "mm/s",
    "m2", "ha", "L/m**2", "m**3/s", "L/s", "Pa", "hPa", "N/m**2", "W/m**2", "J", "degC", "K", "degF", "%", "1", "",
    "percent", "dimensionless", "g/cm**3", "kg/m**3",
    # spellings that differ only in blanks but mean different units (a blank is a multiplication sign)
    "ms-1", "m s", "ms",
]


def fresh(u1, u2):
    """(compatible, equivalent) straight from dimensional analysis (pint as oracle, no finam memo)."""
    a, b = fm.UNITS.Unit(u1), fm.UNITS.Unit(u2)
    comp = a.dimensionality == b.dimensionality
    if not comp:
        return False, False
    one = fm.UNITS.Quantity(1.0, a).to(b).magnitude
    return True, bool(np.isclose(one, 1.0))


def affine(u1, u2):
    """(factor, offset) of the conversion u1 -> u2 from pint: f(x) = a x + b."""
    a, b = fm.UNITS.Unit(u1), fm.UNITS.Unit(u2)
    import fractions
    c0 = float(fm.UNITS.Quantity(0.0, a).to(b).magnitude)
    c1 = float(fm.UNITS.Quantity(1000.0, a).to(b).magnitude)
    # the exact rational factor/offset that the float results approximate (9/5, -45967/100, ...): differences of
    # floats such as conv(1) - conv(0) carry rounding noise that would otherwise be taken literally by the solver
    def simplest(x):
        for k in (10**3, 10**5, 10**7, 10**9, 10**11):
            f = fractions.Fraction(x).limit_denominator(k)
            if abs(float(f) - x) <= 1e-11 * max(abs(x), 1e-300):
                return f
        return fractions.Fraction(x)

    fa = simplest((c1 - c0) / 1000.0)
    fb = simplest(c0) if c0 != 0 else fractions.Fraction(0)
    return fa, fb


def h_memo(ctx):
    """Inductive step over the memo: from ANY state of the cache that satisfies the invariant
    (every stored pair holds the fresh answer), every query returns the fresh answer and keeps the
    invariant -- hence answers cannot depend on which pairs were queried before."""
    pairs = ctx.params["pairs"]
    u1, u2 = pairs[ctx.choice("pair", len(pairs))]
    pre = ctx.choice("pre_state", 5)  # 0 empty, 1 same pair, 2 reversed pair, 3 both, 4 whole catalogue slice
    cache = funits._UNIT_PAIRS_CACHE
    cache.clear()
    U = fm.UNITS.Unit
    if pre in (1, 3):
        cache[(U(u1), U(u2))] = fresh(u1, u2)
    if pre in (2, 3):
        cache[(U(u2), U(u1))] = fresh(u2, u1)
    if pre == 4:
        for a in ctx.params["context"]:
            for b in ctx.params["context"]:
                cache[(U(a), U(b))] = fresh(a, b)
    queries = ["c12", "e12", "c21", "e21"]
    nq = ctx.params["queries"]
    for k in range(nq):
        q = queries[ctx.choice(f"q{k}", 4)]
        a, b = (u1, u2) if q.endswith("12") else (u2, u1)
        got = dtools.compatible_units(a, b) if q[0] == "c" else dtools.equivalent_units(a, b)
        want = fresh(a, b)[0 if q[0] == "c" else 1]
        ctx.check(bool(got) == want, "answer-differs-from-fresh-computation",
                  {"sig": f"{q[0]}:{u1}|{u2}", "pre": pre, "query": q, "got": bool(got), "want": want})
        for (x, y), v in cache.items():
            fx = fresh(str(x), str(y)) if False else None  # (kept simple: check the two keys below)
        for (x, y) in ((u1, u2), (u2, u1)):
            v = cache.get((U(x), U(y)))
            if v is not None:
                ctx.check((bool(v[0]), bool(v[1])) == fresh(x, y), "memo-invariant-broken", {"sig": f"{x}|{y}"})
    cache.clear()
    ctx.cover("done")


def h_convert(ctx):
    """for all values: relabel iff equivalent, a*v+b otherwise, refuse iff incompatible"""
    pairs = ctx.params["pairs"]
    u1, u2 = pairs[ctx.choice("pair", len(pairs))]
    hlib.reset_finam_state()
    comp, equiv = fresh(u1, u2)
    vals = [ctx.real("v0"), ctx.real("v1")]
    x = fm.UNITS.Quantity(np.array(vals, dtype=object), u1)
    sig = f"{u1}->{u2}"
    # --- to_units
    try:
        y, conv = dtools.to_units(x, u2, check_equivalent=True, report_conversion=True)
        res = "ok"
    except pint.errors.DimensionalityError:
        res = "refused"
    ctx.cover("to_units:" + res)
    ctx.check((res == "ok") == comp, "to_units-accepts-iff-compatible", {"sig": sig})
    if res == "ok" and comp:
        a, b = affine(u1, u2)
        ctx.check(y.units == fm.UNITS.Unit(u2), "to_units-result-units", {"sig": sig})
        for k in range(2):
            if equiv:
                ctx.check(ctx.eq(y.magnitude[k], vals[k]), "equivalent-units-changed-numbers", {"sig": sig})
            else:
                ctx.check(ctx.eq(y.magnitude[k], a * vals[k] + b, tol=1e-9), "conversion-not-factor-and-offset",
                          {"sig": sig, "a": a, "b": b})
        ctx.check((conv is None) == (equiv or fm.UNITS.Unit(u1) == fm.UNITS.Unit(u2)), "conversion-report", {"sig": sig})
    # --- prepare (publishing data with foreign units)
    info = fm.Info(time=hlib.T0, grid=fm.NoGrid(1), units=u2)
    try:
        z, conv = dtools.prepare(fm.UNITS.Quantity(np.array(vals, dtype=object), u1), info, report_conversion=True)
        res = "ok"
    except FinamDataError:
        res = "refused"
    ctx.cover("prepare:" + res)
    ctx.check((res == "ok") == comp, "prepare-accepts-iff-compatible", {"sig": sig})
    if res == "ok" and comp:
        a, b = affine(u1, u2)
        for k in range(2):
            want = vals[k] if equiv else a * vals[k] + b
            ctx.check(ctx.eq(z.magnitude[0][k], want, tol=1e-9), "prepare-conversion", {"sig": sig})
        ctx.check((conv is None) == equiv, "prepare-converts-iff-not-equivalent", {"sig": sig})
    # --- prepare under metadata that demands a fixed mask (unmasked quantity payload gets wrapped)
    g1 = fm.UniformGrid((3,))
    minfo = fm.Info(time=hlib.T0, grid=g1, units=u2, mask=np.array([False, True]))
    offset_pair = comp and affine(u1, u2)[1] != 0
    if offset_pair:
        res = "skipped"  # numpy.ma cannot add an offset to a masked OBJECT array (proxy limitation, stated)
    else:
        try:
            zm = dtools.prepare(fm.UNITS.Quantity(np.array(vals, dtype=object), u1), minfo)
            res = "ok"
        except FinamDataError:
            res = "refused"
        ctx.check((res == "ok") == comp, "prepare-masked-accepts-iff-compatible", {"sig": sig})
    if res == "ok" and comp:
        a, b = affine(u1, u2)
        want = vals[0] if equiv else a * vals[0] + b
        ctx.check(ctx.eq(np.ma.getdata(zm.magnitude)[0][0], want, tol=1e-9), "prepare-masked-conversion", {"sig": sig})
    # --- across a link (producer units u1, consumer units u2)
    out = fm.Output(name="out", info=fm.Info(time=hlib.T0, grid=fm.NoGrid(1), units=u1))
    inp = fm.Input(name="in", info=fm.Info(time=hlib.T0, grid=fm.NoGrid(1), units=u2))
    out >> inp
    inp.ping()
    try:
        inp.exchange_info()
        res = "ok"
    except FinamMetaDataError:
        res = "refused"
    ctx.cover("link:" + res)
    ctx.check((res == "ok") == comp, "link-accepts-iff-compatible", {"sig": sig})
    if res == "ok" and comp:
        out.push_data(np.array(vals, dtype=object), hlib.T0)
        d = inp.pull_data(hlib.T0)
        a, b = affine(u1, u2)
        ctx.check(d.units == fm.UNITS.Unit(u2), "link-units")
        for k in range(2):
            want = vals[k] if equiv else a * vals[k] + b
            ctx.check(ctx.eq(d.magnitude[0][k], want, tol=1e-9), "link-conversion", {"sig": sig})


    # --- across a STATIC link, pulled repeatedly (the input serves later pulls from its own cache)
    if comp:
        sout = fm.Output(name="sout", info=fm.Info(time=None, grid=fm.NoGrid(1), units=u1), static=True)
        sinp = fm.Input(name="sin", info=fm.Info(time=None, grid=fm.NoGrid(1), units=u2), static=True)
        sout >> sinp
        sinp.ping()
        sinp.exchange_info()
        sout.push_data(np.array(vals, dtype=object), None)
        a, b = affine(u1, u2)
        for n_ in range(3):
            d = sinp.pull_data(hlib.T0 + hlib.DAY * n_)
            ctx.check(d.units == fm.UNITS.Unit(u2), "static-link-units", {"sig": sig, "pull": n_})
            for k in range(2):
                want = vals[k] if equiv else a * vals[k] + b
                ctx.check(ctx.eq(d.magnitude[0][k], want, tol=1e-9), "static-link-conversion",
                          {"sig": sig, "pull": n_})


    # --- through an adapter that rewrites the metadata on the way (ValueToGrid: scalar source, gridded consumer)
    if comp:
        g = fm.UniformGrid((3,))
        vout = fm.Output(name="vout", info=fm.Info(time=hlib.T0, grid=fm.NoGrid(), units=u1))
        vin = fm.Input(name="vin", info=fm.Info(time=hlib.T0, grid=g, units=u2))
        vout >> fm.adapters.ValueToGrid(g) >> vin
        vin.ping()
        vin.exchange_info()
        vout.push_data(2.5, hlib.T0)
        d = vin.pull_data(hlib.T0)
        a, b = affine(u1, u2)
        want = 2.5 if equiv else float(a) * 2.5 + float(b)
        ctx.check(d.units == fm.UNITS.Unit(u2), "adapter-link-units", {"sig": sig})
        got = np.asarray(d.magnitude, dtype=float).reshape(-1)
        ctx.check(bool(np.allclose(got, want, rtol=1e-9, atol=1e-12)), "adapter-link-conversion",
                  {"sig": sig, "got": float(got[0]), "want": want})


def _all_pairs(cat):
    return [(a, b) for a in cat for b in cat]


EXPLANATION = (
    "What the solver-based family reaches of this property (pint's registry -- which dimension, factor and offset a "
    "unit string has -- is a large dynamic parser/data file and is taken as the trusted oracle). (memo) INDUCTIVE STEP "
    "over finam's unit-pair memo: for every ordered pair of a catalogue (SI, CF/UDUNITS-style strings, compound units, "
    "offset units, percent, dimensionless aliases), from every pre-state of the cache in {empty, this pair cached, the "
    "reversed pair cached, both, a whole catalogue slice cached} holding the invariant 'stored = fresh', every sequence "
    "of 2-3 queries of compatible_units/equivalent_units in either direction returns the fresh dimensional-analysis "
    "answer and keeps the invariant; so answers are independent of query history. (convert) FOR ALL VALUES: with symbolic "
    "real magnitudes in object arrays the real to_units(check_equivalent), prepare and the Output->Input link relabel "
    "without changing the terms iff the units are equivalent, produce a·v+b with pint's own (a,b) otherwise (z3 refutes "
    "inequality), and refuse (DimensionalityError / FinamDataError / FinamMetaDataError) iff the dimensions differ; a static "
    "link is pulled three times (later pulls come from the input's cache) and must deliver the converted data every time."
)
ASSUMPTIONS = ["pint is the oracle for (compatible, factor, offset) of each catalogue pair",
               "catalogue of 38 unit strings (incl. spellings differing only in blanks) (vf/props/c17.py CATALOGUE)"]


def families(tier):
    q = tier == "quick"
    cat = CATALOGUE
    small = ["m", "km", "s", "degC", "K", "%", "1", "", "mm/d", "m s-1", "kg m-2 s-1", "hPa", "Pa", "mm", "L/m**2",
             "N/m**2", "ms-1"]
    pairs = _all_pairs(small if q else cat)
    fams = [
        dict(name="memo:induction", ref="vf.props.c17:h_memo",
             params={"pairs": pairs, "queries": 2, "context": small[:8]},
             bounds=f"{len(pairs)} ordered pairs x 5 cache pre-states x every sequence of 2 queries",
             must_cover=["done"]),
    ] + ([] if q else [
        dict(name="memo:induction:3queries", ref="vf.props.c17:h_memo",
             params={"pairs": _all_pairs(small), "queries": 3, "context": small[:8]},
             bounds=f"{len(small) ** 2} ordered pairs x 5 cache pre-states x every sequence of 3 queries",
             must_cover=["done"]),
    ]) + [
        dict(name="convert:values", ref="vf.props.c17:h_convert", params={"pairs": pairs},
             bounds=f"{len(pairs)} ordered pairs, symbolic magnitudes",
             must_cover=["to_units:ok", "to_units:refused", "prepare:refused", "link:refused", "link:ok"]),
    ]
    return fams
