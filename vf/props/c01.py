"""C01 -- the scheduler never updates a component before its input data exists."""
from .. import sched, topos

EXPLANATION = (
    "Bounded symbolic execution (symx proxies + z3) of the real Composition.connect/run on a catalogue of coupling "
    "topologies. Start offsets, steps (fixed or a 2-cycle), delays and the end time are unbounded integer-microsecond "
    "variables; every comparison the real scheduler, outputs and adapters make on them forks the execution and is "
    "decided by z3. Oracle, from outside: (1) at every entry of Component.update an independent walk over the links "
    "applies the adapters' documented delay shifts in pull order and asks the solver whether a source output can still "
    "be behind the time that will be requested (a feasible 'yes' is a violation); (2) at every Output.get_data during "
    "an update PC ∧ ¬(oldest retained <= t <= newest) must be unsat; (3) no feasible path may end in "
    "FinamTimeError/FinamNoDataError/any other exception. " + sched.RUN_FUNCTIONS_NOTE
)
ASSUMPTIONS = [
    "harness components pull every input at their announced next_time (as CallbackComponent does)",
    "claim limited to the listed topologies and to runs within the stated total number of updates",
]


def families(tier):
    q = tier == "quick"
    D, R = topos.DAGS, topos.RINGS_OK
    fams = []

    def add(name, topo, uq, ut, **kw):
        u = uq if q else ut
        if kw.pop("offsets_off", False):
            topo = dict(topo, offsets=False)
        if u:
            fams.append(sched.run_family("C01", name, topo, u, **kw))

    add("ab", D["ab"], 4, 7)
    add("ba_listed", D["ba_listed"], 0, 6)
    add("ab_scale_linear", D["ab_scale_linear"], 4, 6)
    add("ab_next", D["ab_next"], 0, 6)
    add("ab_avg", D["ab_avg"], 0, 6)
    add("ab_dfix", D["ab_dfix"], 4, 6)
    add("ab_dpull", D["ab_dpull"], 4, 6)
    add("ab_dpush", D["ab_dpush"], 0, 6)
    add("ab_linear_dfix", D["ab_linear_dfix"], 4, 5)
    add("ab_next_scale_dfix", D["ab_next_scale_dfix"], 0, 5)
    add("ab_dfix_linear", topos.DELAY_BEFORE_PUSH["ab_dfix_linear"], 3, 4, offsets_off=True)
    add("ab_dpull_next", topos.DELAY_BEFORE_PUSH["ab_dpull_next"], 0, 4, offsets_off=True)
    add("ab_vary", D["ab_vary"], 4, 6)
    add("a_p_b", D["a_p_b"], 4, 6)
    add("a_p_b_rev", D["a_p_b_rev"], 0, 6)
    add("a_p_q_b", D["a_p_q_b"], 0, 6)
    add("a_p_dfix_b", D["a_p_dfix_b"], 3, 5)
    add("a_p_bc", D["a_p_bc"], 0, 4)
    add("ab_p_c", D["ab_p_c"], 0, 4)
    add("a0_a_p_b_rev", D["a0_a_p_b_rev"], 3, 4)
    add("a_dpull_b_c", D["a_dpull_b_c"], 3, 4)
    add("a0_a_p_b", D["a0_a_p_b"], 0, 4)
    add("two_pulls_parallel", D["two_pulls_parallel"], 0, 4)
    add("tap_shared_dfix", topos.TAPS["tap_shared_dfix"], 4, 4)
    add("tap_shared_scale", topos.TAPS["tap_shared_scale"], 3, 4)
    add("abc", D["abc"], 0, 5)
    add("cba_listed", D["cba_listed"], 0, 5)
    add("fan_in", D["fan_in"], 0, 5)
    add("fan_out", D["fan_out"], 0, 5)
    add("two_inputs_delay_first", D["two_inputs_delay_first"], 3, 4)
    add("two_dpull_inputs", D["two_dpull_inputs"], 3, 4)
    add("a_p_two_links_dfix_b", D["a_p_two_links_dfix_b"], 3, 4)
    add("ring2_dfix", R["ring2_dfix"], 3, 5, delay_sum_ge_steps=True)
    add("ring2_dfix_dfix", R["ring2_dfix_dfix"], 0, 4, delay_sum_ge_steps=True)
    add("ring2_split_links", R["ring2_split_links"], 0, 4, delay_sum_ge_steps=True)
    add("ring2_pull", R["ring2_pull"], 0, 4, delay_sum_ge_steps=True)
    add("ring3_dfix", R["ring3_dfix"], 0, 4, delay_sum_ge_steps=True)
    add("ring2_dpush", topos.RINGS_PUSH["ring2_dpush"], 0, 5)
    # one scheduling step from an arbitrary state (no bound on the length of the run so far)
    for name, topo in {**D, **({} if q else topos.BIG)}.items():
        if name in ("ba_listed", "cba_listed", "a_p_b_rev"):
            continue
        fams.append(sched.step_family("C01", name, topo))
    for name, topo in {**R, **({"ring3_chord_ok": topos.BIG_RINGS["ring3_chord_ok"]} if q else topos.BIG_RINGS)}.items():
        if name == "ring2_dfix_listed_ba":
            continue
        fams.append(sched.step_family("C01", name, topo, delay_sum_ge_steps=True))
    fams.append(sched.step_family("C01", "ring2_dpush", topos.RINGS_PUSH["ring2_dpush"]))
    # adapter chains in every ordering: all pairs (quick: a subset), and triples in the thorough tier
    kinds = ["scale", "linear", "next", "avg", "dfix", "dpull2", "dpush"]
    if not q:
        kinds += ["prev", "step", "sum"]  # (StackTime is left out: stacked NoGrid data with >1 entries fails its own shape check)
    import itertools
    chains = [list(c) for c in itertools.product(kinds, repeat=2)]
    if q:
        chains = [c for c in chains if "dfix" in c or "dpull2" in c][::2]
    else:
        chains += [list(c) for c in itertools.product(["scale", "linear", "dfix", "dpull2", "dpush"], repeat=3)]
    for c in chains:
        name = "chain_" + "+".join(c)
        fams.append(sched.step_family("C01", name, topos.T(["A", "B"], [("A", "B", c)])))
    return fams
