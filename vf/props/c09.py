"""C09 -- output history is never dropped while needed and never grows unboundedly."""
from __future__ import annotations

import numpy as np

from .. import hlib, symx
from ..hlib import fm
from finam.interfaces import IAdapter
from finam.errors import FinamNoDataError, FinamTimeError
from finam.sdk.output import Output


class KeepAllOutput(Output):
    """Reference: identical to Output but never discards history."""

    def _clear_data(self, time, target):
        self._connected_inputs[target] = time


def _wire(out, spec):
    """spec: list of consumer kinds.  Returns list of end-point inputs (in spec order)."""
    ends = []
    shared = None
    for kind in spec:
        inp = fm.Input(name=f"in{len(ends)}", info=fm.Info(time=None, grid=None, units=None))
        if kind == "direct":
            out >> inp
        elif kind == "scale":
            out >> fm.adapters.Scale(1.0) >> inp
        elif kind == "shared":  # several inputs behind ONE pass-through adapter
            if shared is None:
                shared = fm.adapters.Scale(1.0)
                out >> shared
            shared >> inp
        elif kind == "shared_dfix":  # several inputs behind ONE DelayFixed(0)
            if shared is None:
                from datetime import timedelta
                shared = fm.adapters.DelayFixed(timedelta(0))
                out >> shared
            shared >> inp
        elif kind == "next":
            out >> fm.adapters.NextTime() >> inp
        elif kind == "dfix_next":  # push-based adapter that asks the output for an OLDER time when notified
            from datetime import timedelta
            out >> fm.adapters.DelayFixed(timedelta(microseconds=2)) >> fm.adapters.NextTime() >> inp
        elif kind == "scale2_next":  # notifications have to travel through two pass-through adapters
            out >> fm.adapters.Scale(1.0) >> fm.adapters.Scale(1.0) >> fm.adapters.NextTime() >> inp
        elif kind == "scale2_linear":
            out >> fm.adapters.Scale(1.0) >> fm.adapters.Scale(1.0) >> fm.adapters.LinearTime() >> inp
        elif kind == "linear":
            out >> fm.adapters.LinearTime() >> inp
        else:
            raise ValueError(kind)
        ends.append(inp)
    for inp in ends:
        inp.ping()
    for inp in ends:
        inp.exchange_info()
    return ends


def _pull(inp, r):
    try:
        return ("ok", hlib.scalar_of(inp.pull_data(r)))
    except FinamTimeError:
        return ("time-error", None)
    except FinamNoDataError:
        return ("no-data", None)
    except (OSError, ValueError) as e:  # e.g. a spill file that is gone
        return ("error:" + type(e).__name__, None)


def h_events(ctx, _holder=None):
    """Symbolic event sequence (publish | pull by consumer j) against the real Output and an
    unlimited-history twin wired identically."""
    spec, L = ctx.params["consumers"], ctx.params["events"]
    hlib.reset_finam_state()
    t0 = ctx.dt("t0")
    info = lambda: fm.Info(time=t0, grid=fm.NoGrid(), units="m")  # noqa: E731
    real = Output(name="out", info=info())
    twin = KeepAllOutput(name="out", info=info())
    spill = ctx.params.get("spill")
    tmpdir = None
    if spill:
        import tempfile
        tmpdir = tempfile.mkdtemp(prefix="vf_c09_")
        if _holder is not None:
            _holder.append(tmpdir)
        real.memory_limit, real.memory_location = 0, tmpdir  # every retained publication lives in a file
    ends_r = _wire(real, spec)
    ends_t = _wire(twin, spec)
    n = len(spec)
    pubs = []
    last_req = [None] * n
    last_ok = [None] * n
    direct = [k in ("direct", "scale", "shared", "shared_dfix") for k in spec]
    for i in range(L):
        ev = ctx.choice(f"ev{i}", 1 + n) if pubs else 0
        if ev == 0:
            t = t0 if not pubs else pubs[-1] + ctx.td(f"g{i}", lo_us=1)
            v = float(len(pubs))
            try:
                if spill == "masked":
                    real.push_data(np.ma.masked_array(np.array(v), mask=False), t)
                else:
                    real.push_data(np.array(v), t)
            except FinamTimeError:
                # a push-based end point pulls from inside the notification: the history it needs was dropped
                ctx.fail("publication-fails-because-history-was-dropped", {"sig": "drop", "consumers": str(spec)})
                return
            if spill == "masked":
                twin.push_data(np.ma.masked_array(np.array(v), mask=False), t)
            else:
                twin.push_data(np.array(v), t)
            pubs.append(t)
            # push-based adapters pulled at the publication time
            for j, k in enumerate(spec):
                if not direct[j]:
                    pass
            ctx.log(f"ev{i}", "push")
            continue
        j = ev - 1
        r = ctx.dt(f"r{i}")
        if last_req[j] is not None:
            ctx.assume(r >= last_req[j])
        a = _pull(ends_r[j], r)
        b = _pull(ends_t[j], r)
        ctx.log(f"ev{i}", [j, a[0], a[1]])
        ctx.cover("pull:" + a[0])
        if a[0] == "no-data":
            # something has been published (the first event is a publication): every end point, also one behind
            # push-based adapters, has data to answer from
            ctx.fail("no-data-after-a-publication", {"sig": "starved", "consumer": spec[j]})
        elif a[0] != b[0]:
            ctx.fail("differs-from-unlimited-history",
                     {"sig": "drop", "consumer": spec[j], "real": str(a), "unlimited": str(b)})
        elif a[0] == "ok":
            # same publication (tag) -- for interpolating adapters the same interpolated term
            ctx.check(ctx.eq(a[1], b[1]), "differs-from-unlimited-history",
                      {"sig": "drop", "consumer": spec[j]})
        if a[0] == "ok" or direct[j]:
            last_req[j] = r
        # bounded retention once every consumer has pulled.  End points that pull by themselves are judged by the
        # harness' own record of their last successful request (not by the output's bookkeeping, which is part
        # of what is checked); push-based adapters pull at publication times: their registered request is used
        if a[0] == "ok":
            last_ok[j] = r
        regs = [last_ok[jj] for jj in range(n) if direct[jj]]
        regs += [v for k_, v in real._connected_inputs.items() if isinstance(k_, IAdapter)]
        if all(x is not None for x in regs) and regs:
            tmin = regs[0]
            for x in regs[1:]:
                tmin = x if bool(x < tmin) else tmin
            newer = sum(1 for p in pubs if bool(p > tmin))
            ctx.cover("all-pulled")
            ctx.check(len(real.data) <= 1 + newer, "history-longer-than-needed",
                      {"sig": "grow", "retained": len(real.data), "newer": newer})


def h_events_spill(ctx):
    import shutil
    holder = []
    try:
        h_events(ctx, holder)
    finally:
        for d in holder:  # only the directory this very execution created
            shutil.rmtree(d, ignore_errors=True)


def h_inductive(ctx):
    """One event from an ARBITRARY state satisfying the representation invariant of the history.

    State: retained publications t_0 < .. < t_{m-1}; per consumer the last request L_j or 'never
    pulled'; a flag 'something was dropped before' with a ghost time g < t_0 standing for the newest
    dropped publication.  Invariant (Inv):
      I1  times strictly increase;            I2  every L_j <= t_{m-1};
      I3  if some consumer never pulled: nothing was dropped;
      I4  if all pulled: t_0 <= min L  (when something was dropped)  and  (m == 1 or t_1 > min L).
    Inv holds after the first publication and -- shown here for every event -- is preserved; with it
    every pull equals the pull on the unlimited history and the retained length is bounded."""
    n = ctx.params["consumers"]
    hlib.reset_finam_state()
    base = ctx.dt("t0")
    out = Output(name="out", info=fm.Info(time=base, grid=fm.NoGrid(), units="m"))
    ends = _wire(out, ["direct"] * n)
    m = ctx.choice("retained", ctx.params["max_retained"]) + 1
    times = [base]
    for i in range(1, m):
        times.append(times[-1] + ctx.td(f"g{i}", lo_us=1))
    out.push_data(np.array(0.0), times[0])  # go through the real first publication, then inject
    out.data = [(t, fm.UNITS.Quantity(np.array([float(i)]), "m")) for i, t in enumerate(times)]
    out._time = times[-1]
    pulled = [ctx.flag(f"pulled{j}") for j in range(n)]
    last = []
    for j in range(n):
        if pulled[j]:
            L = ctx.dt(f"L{j}")
            ctx.assume(L <= times[-1])  # I2
            last.append(L)
        else:
            last.append(None)
    allp = all(pulled)
    dropped = ctx.flag("dropped") if allp else False  # I3
    regs = list(out._connected_inputs.keys())
    for j, inp in enumerate(ends):
        out._connected_inputs[inp] = last[j]
    if allp:
        tmin = last[0]
        for x in last[1:]:
            tmin = x if bool(x < tmin) else tmin
        if dropped:
            ctx.assume(times[0] <= tmin)  # I4a
        else:
            # nothing dropped so far although everybody pulled: clearing found nothing to drop
            pass
        if m > 1:
            ctx.assume(times[1] > tmin)  # I4b
    ctx.cover("state")
    # ---- one arbitrary event ----
    ev = ctx.choice("event", 1 + n)
    if ev == 0:
        t = times[-1] + ctx.td("g_new", lo_us=1)
        out.push_data(np.array(float(m)), t)
        times = times + [t]
        ctx.cover("publish")
    else:
        j = ev - 1
        r = ctx.dt("r")
        if last[j] is not None:
            ctx.assume(r >= last[j])
        res = _pull(ends[j], r)
        ctx.log("pull", [res[0], res[1]])
        ctx.cover("pull:" + res[0])
        inside_all = (r <= times[-1]) & (r >= times[0])
        if res[0] == "time-error":
            # refused: must be outside the range of the UNLIMITED history; with dropped entries the
            # unlimited history starts before t_0, so a refusal below t_0 would be a loss
            ctx.check(r > times[-1] if dropped else symx.neg(inside_all), "refused-although-history-had-it",
                      {"sig": "inductive"})
        else:
            ctx.check(inside_all, "served-outside-range", {"sig": "inductive"})
            i = int(res[1])
            for k, tk in enumerate(times):
                if k != i:
                    ctx.check(abs(r - times[i]) <= abs(r - tk), "not-nearest", {"sig": "inductive"})
            last[j] = r
    # ---- invariant and bound in the post-state ----
    post = [t for t, _ in out.data]
    ctx.check(len(post) >= 1, "history-empty")
    for a, b in zip(post, post[1:]):
        ctx.check(a < b, "inv-times-increasing")
    regs = [out._connected_inputs[inp] for inp in ends]
    # the output's record of each consumer's last request is the harness' record (the invariant below is stated
    # on it): unchanged for consumers that did not pull, the request time after a served pull
    for k in range(n):
        if ev != 0 and k == ev - 1 and res[0] != "ok":
            continue  # a refused request may or may not be recorded
        if last[k] is None:
            ctx.check(regs[k] is None, "bookkeeping-differs-from-requests", {"sig": "inductive:phantom"})
        else:
            ctx.check(regs[k] is not None and bool(ctx.eq(regs[k], last[k])), "bookkeeping-differs-from-requests",
                      {"sig": "inductive"})
    for x in regs:
        if x is not None:
            ctx.check(x <= post[-1], "inv-request-beyond-newest")
    if all(x is not None for x in regs):
        tmin = regs[0]
        for x in regs[1:]:
            tmin = x if bool(x < tmin) else tmin
        removed = len(post) < len(times)
        if dropped or removed:
            ctx.check(post[0] <= tmin, "inv-dropped-something-still-needed", {"sig": "inductive"})
        if len(post) > 1:
            ctx.check(post[1] > tmin, "inv-history-longer-than-needed", {"sig": "inductive"})
    else:
        ctx.check(len(post) == len(times), "dropped-before-every-consumer-pulled", {"sig": "inductive"})


EXPLANATION = (
    "Bounded symbolic execution (symx proxies + z3) of the real Output.push_data/get_data/_interpolate/_clear_data "
    "(through Input.pull_data and the real adapters) over symbolic event sequences: each event is chosen by a "
    "symbolic variable (publish at last+gap | pull by consumer j at a time >= its previous request); gaps and request "
    "times are unbounded integer-microsecond variables. Differential oracle: a twin output wired identically whose "
    "_clear_data never discards must give the same publication tag or the same error class on every pull (a feasible "
    "path where they differ is a violation); retention bound: once all consumers have pulled, len(history) <= 1 + "
    "#publications newer than the slowest consumer's last request. "
    "The 'inductive' families extend this to runs of any length: from an ARBITRARY symbolic state of the real Output "
    "(retained times, per-consumer last requests, 'something was dropped' ghost) that satisfies an explicit "
    "representation invariant, one arbitrary event is executed on the real code; z3 proves the served publication is "
    "the nearest, that a refusal is never due to dropped history, and that the invariant (which contains the length "
    "bound) holds again."
)
ASSUMPTIONS = ["inductive families: the invariant I1-I4 documented in h_inductive characterises reachable states "
               "(it holds after the first publication and is re-proved after every event)",
               "per-consumer request times are non-decreasing (documented pull discipline)",
               "first publication happens before the first pull"]


def families(tier):
    q = tier == "quick"
    table = [
        ("one_direct", ["direct"], 5, 7),
        ("two_direct", ["direct", "direct"], 5, 6),
        ("scale_and_direct", ["scale", "direct"], 4, 6),
        ("two_behind_one_adapter", ["shared", "shared"], 5, 6),
        ("two_behind_one_delay_adapter", ["shared_dfix", "shared_dfix"], 5, 6),
        ("next_and_direct", ["next", "direct"], 4, 6),
        ("next_behind_two_adapters", ["scale2_next", "direct"], 4, 5),
        ("delayed_next_and_direct", ["dfix_next", "direct"], 4, 5),
        ("linear_behind_two_adapters", ["scale2_linear"], 0, 5),
        ("linear_and_direct", ["linear", "direct"], 0, 5),
        ("three_direct", ["direct", "direct", "direct"], 0, 6),
        ("four_mixed", ["direct", "shared", "shared", "next"], 0, 5),
    ]
    fams = []
    for name, spec, lq, lt in table:
        L = lq if q else lt
        if L:
            fams.append(dict(
                name=f"events:{name}", ref="vf.props.c09:h_events",
                params={"consumers": spec, "events": L},
                bounds=f"consumers {spec}; every event sequence of length {L} (first event is a publication); "
                       f"gaps >= 1 us, request times arbitrary but non-decreasing per consumer",
                must_cover=["pull:ok", "pull:time-error", "all-pulled"]))
    for kind in ("plain", "masked"):
        fams.append(dict(
            name=f"events_spilled:{kind}", ref="vf.props.c09:h_events_spill",
            params={"consumers": ["direct", "direct"], "events": 5 if q else 6, "spill": kind},
            bounds=f"two direct consumers, event sequences of length {5 if q else 6}, memory limit 0 ({kind} payloads): every "
                   f"retained publication is a spill file", must_cover=["pull:ok", "all-pulled"], workers=4))
    for n in ((1, 2) if q else (1, 2, 3, 4)):
        fams.append(dict(
            name=f"inductive:{n}_consumers", ref="vf.props.c09:h_inductive",
            params={"consumers": n, "max_retained": 3 if q else 4},
            bounds=f"{n} direct consumer(s); ONE event (publish / pull by any consumer) from an arbitrary state with "
                   f"1..{3 if q else 4} retained publications satisfying the history invariant; all times symbolic; no bound "
                   f"on the length of the run so far",
            must_cover=["state", "publish", "pull:ok", "pull:time-error"]))
    return fams
