"""C09 -- output history is never dropped while needed and never grows unboundedly."""
from __future__ import annotations

import numpy as np

from .. import hlib
from ..hlib import fm
from finam.errors import FinamNoDataError, FinamTimeError
from finam.sdk.output import Output


class KeepAllOutput(Output):
    """Reference: identical to Output but never discards history."""

    def _clear_data(self, time, target):
        self._connected_inputs[target] = time


def _wire(out, spec):
    """spec: list of consumer kinds.  Returns list of end-point inputs (in spec order)."""
    ends = []
    shared = None
    for kind in spec:
        inp = fm.Input(name=f"in{len(ends)}", info=fm.Info(time=None, grid=None, units=None))
        if kind == "direct":
            out >> inp
        elif kind == "scale":
            out >> fm.adapters.Scale(1.0) >> inp
        elif kind == "shared":  # several inputs behind ONE pass-through adapter
            if shared is None:
                shared = fm.adapters.Scale(1.0)
                out >> shared
            shared >> inp
        elif kind == "next":
            out >> fm.adapters.NextTime() >> inp
        elif kind == "linear":
            out >> fm.adapters.LinearTime() >> inp
        else:
            raise ValueError(kind)
        ends.append(inp)
    for inp in ends:
        inp.ping()
    for inp in ends:
        inp.exchange_info()
    return ends


def _pull(inp, r):
    try:
        return ("ok", float(hlib.tagval(inp.pull_data(r))))
    except FinamTimeError:
        return ("time-error", None)
    except FinamNoDataError:
        return ("no-data", None)


def h_events(ctx):
    """Symbolic event sequence (publish | pull by consumer j) against the real Output and an
    unlimited-history twin wired identically."""
    spec, L = ctx.params["consumers"], ctx.params["events"]
    hlib.reset_finam_state()
    t0 = ctx.dt("t0")
    info = lambda: fm.Info(time=t0, grid=fm.NoGrid(), units="m")  # noqa: E731
    real = Output(name="out", info=info())
    twin = KeepAllOutput(name="out", info=info())
    ends_r = _wire(real, spec)
    ends_t = _wire(twin, spec)
    n = len(spec)
    pubs = []
    last_req = [None] * n
    direct = [k in ("direct", "scale", "shared") for k in spec]
    for i in range(L):
        ev = ctx.choice(f"ev{i}", 1 + n) if pubs else 0
        if ev == 0:
            t = t0 if not pubs else pubs[-1] + ctx.td(f"g{i}", lo_us=1)
            v = float(len(pubs))
            real.push_data(np.array(v), t)
            twin.push_data(np.array(v), t)
            pubs.append(t)
            # push-based adapters pulled at the publication time
            for j, k in enumerate(spec):
                if not direct[j]:
                    pass
            ctx.log(f"ev{i}", "push")
            continue
        j = ev - 1
        r = ctx.dt(f"r{i}")
        if last_req[j] is not None:
            ctx.assume(r >= last_req[j])
        a = _pull(ends_r[j], r)
        b = _pull(ends_t[j], r)
        ctx.log(f"ev{i}", [j, a[0], a[1]])
        ctx.cover("pull:" + a[0])
        if a != b:
            ctx.fail("differs-from-unlimited-history",
                     {"sig": "drop", "consumer": spec[j], "real": a, "unlimited": b})
        if a[0] == "ok" or direct[j]:
            last_req[j] = r
        # bounded retention once every consumer has pulled
        regs = list(real._connected_inputs.values())
        if all(x is not None for x in regs) and regs:
            tmin = regs[0]
            for x in regs[1:]:
                tmin = x if bool(x < tmin) else tmin
            newer = sum(1 for p in pubs if bool(p > tmin))
            ctx.cover("all-pulled")
            ctx.check(len(real.data) <= 1 + newer, "history-longer-than-needed",
                      {"sig": "grow", "retained": len(real.data), "newer": newer})


EXPLANATION = (
    "Bounded symbolic execution (symx proxies + z3) of the real Output.push_data/get_data/_interpolate/_clear_data "
    "(through Input.pull_data and the real adapters) over symbolic event sequences: each event is chosen by a "
    "symbolic variable (publish at last+gap | pull by consumer j at a time >= its previous request); gaps and request "
    "times are unbounded integer-microsecond variables. Differential oracle: a twin output wired identically whose "
    "_clear_data never discards must give the same publication tag or the same error class on every pull (a feasible "
    "path where they differ is a violation); retention bound: once all consumers have pulled, len(history) <= 1 + "
    "#publications newer than the slowest consumer's last request."
)
ASSUMPTIONS = ["per-consumer request times are non-decreasing (documented pull discipline)",
               "first publication happens before the first pull"]


def families(tier):
    q = tier == "quick"
    table = [
        ("one_direct", ["direct"], 5, 7),
        ("two_direct", ["direct", "direct"], 5, 6),
        ("scale_and_direct", ["scale", "direct"], 4, 6),
        ("two_behind_one_adapter", ["shared", "shared"], 5, 6),
        ("next_and_direct", ["next", "direct"], 4, 6),
        ("linear_and_direct", ["linear", "direct"], 0, 5),
        ("three_direct", ["direct", "direct", "direct"], 0, 6),
        ("four_mixed", ["direct", "shared", "shared", "next"], 0, 5),
    ]
    fams = []
    for name, spec, lq, lt in table:
        L = lq if q else lt
        if L:
            fams.append(dict(
                name=f"events:{name}", ref="vf.props.c09:h_events",
                params={"consumers": spec, "events": L},
                bounds=f"consumers {spec}; every event sequence of length {L} (first event is a publication); "
                       f"gaps >= 1 us, request times arbitrary but non-decreasing per consumer",
                must_cover=["pull:ok", "pull:time-error", "all-pulled"]))
    return fams
