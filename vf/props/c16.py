"""C16 (nearest-neighbour half only) -- regridding puts the right source value at each target location."""
from __future__ import annotations

import numpy as np

from .. import hlib, symx
from ..hlib import fm
from finam.data.grid_tools import Location


def _uniform(dims, spacing, origin, rev, inc, cells, order="F"):
    return fm.UniformGrid(dims, spacing=spacing, origin=origin, axes_reversed=rev, axes_increase=inc, order=order,
                          data_location=Location.CELLS if cells else Location.POINTS)


def _grid(ctx, tag, dims, geom, allow_unstructured=True):
    """geom: 'A' (reference geometry) or 'B' (shifted, coarser: generic position, no distance ties)"""
    d = len(dims)
    kinds = ["uniform", "unstructured", "points"] + (["mixed"] if d == 2 else [])
    kind = kinds[ctx.choice(tag + "_kind", len(kinds) if allow_unstructured else 1)]
    if kind == "mixed":
        # mesh of two quads and a triangle (cell array padded with -1), data on cells; the expected data locations
        # are computed here as the mean of each cell's nodes, not taken from the grid
        shift = np.array([0.0, 0.0]) if geom == "A" else np.array([0.37, 0.29])
        pts = np.array([[10.0, 20.0], [11.0, 20.0], [12.0, 20.5], [10.0, 22.0], [11.0, 22.3], [12.2, 22.0],
                        [13.0, 21.0]]) + shift
        cells = np.array([[0, 1, 4, 3], [1, 2, 4, -1], [2, 6, 5, 4]])
        types = [fm.CellType.QUAD, fm.CellType.TRI, fm.CellType.QUAD]
        g = fm.UnstructuredGrid(pts, cells, types, data_location=Location.CELLS)
        centres = np.array([pts[[i for i in c if i >= 0]].mean(axis=0) for c in cells])
        return g, "mixed:c", centres
    cells = ctx.flag(tag + "_cells") if kind != "points" else False
    if geom == "A":
        sp, org, dm = (1.0, 2.0, 0.5)[:d], (10.0, 20.0, 30.0)[:d], tuple(dims)
    else:
        sp, org = (0.73, 1.37, 0.41)[:d], (10.11, 20.23, 30.07)[:d]
        dm = tuple(n + 1 for n in dims)
    if kind == "uniform":
        rev = ctx.flag(tag + "_rev")
        inc = [ctx.flag(f"{tag}_inc{i}") for i in range(d)]
        order = "C" if ctx.flag(tag + "_orderC") else "F"
        return (_uniform(dm, sp, org, rev, inc, cells, order),
                f"uniform:rev={rev}:inc={inc}:{order}:{'c' if cells else 'p'}", None)
    base = _uniform(dm, sp, org, False, [True] * d, cells)
    if kind == "unstructured":
        return base.to_unstructured(), f"unstructured:{'c' if cells else 'p'}", None
    pts = np.atleast_2d(base.points)[::-1].copy()  # another enumeration of the same point set
    return fm.UnstructuredPoints(pts), "points", None


def _flat_to_multi(k, shape, order):
    return tuple(int(i) for i in np.unravel_index(k, shape, order=order))


def h_nearest(ctx):
    dims = tuple(ctx.params["dims"])
    same_geometry = ctx.params.get("same_geometry", False)
    hlib.reset_finam_state()
    src, s_sig, s_pts = _grid(ctx, "s", dims, "A")
    tgt, t_sig, t_pts = _grid(ctx, "t", dims, "A" if same_geometry else "B",
                              allow_unstructured=not same_geometry)
    if same_geometry and src.data_location != tgt.data_location:
        ctx.cut("identity needs the same data location")
    sshape, tshape = tuple(src.data_shape), tuple(tgt.data_shape)
    ns, nt = int(np.prod(sshape)), int(np.prod(tshape))
    smask_on = ctx.flag("source_masked")
    tmask_on = ctx.flag("target_masked")
    SM = (np.arange(ns).reshape(sshape) % 3 == 1) if smask_on else np.zeros(sshape, bool)
    TM = (np.arange(nt).reshape(tshape) % 4 == 2) if tmask_on else np.zeros(tshape, bool)
    vals = [ctx.real(f"x{q}") for q in range(ns)]
    X = np.empty(sshape, dtype=object)
    for q, idx in enumerate(np.ndindex(*sshape)):
        X[idx] = vals[q]
    payload = np.ma.array(X, mask=SM.copy()) if smask_on else X
    out = fm.Output(name="out", info=fm.Info(time=hlib.T0, grid=src, units="m",
                                             mask=SM.copy() if smask_on else fm.Mask.FLEX))
    ada = fm.adapters.RegridNearest(out_grid=tgt, out_mask=TM.copy() if tmask_on else None)
    inp = fm.Input(name="in", info=fm.Info(time=hlib.T0, grid=None, units=None))
    out >> ada >> inp
    inp.ping()
    inp.exchange_info()
    out.push_data(payload, hlib.T0)
    d = inp.pull_data(hlib.T0)
    scen = f"{s_sig}->{t_sig}:smask={smask_on}:tmask={tmask_on}"
    sig = f"{s_sig.split(':')[0]}->{t_sig.split(':')[0]}"
    ctx.cover("delivered")
    ctx.check(tuple(d.shape) == (1,) + tshape, "delivered-shape", {"sig": sig})
    dm = d.magnitude
    got = np.asarray(np.ma.getdata(dm), dtype=object)[0]
    gmask = np.ma.getmaskarray(dm)[0] if np.ma.isMaskedArray(dm) else np.zeros(tshape, bool)
    P = np.atleast_2d(src.data_points) if s_pts is None else s_pts
    Q = np.atleast_2d(tgt.data_points) if t_pts is None else t_pts
    src_idx = [_flat_to_multi(k, sshape, src.order) for k in range(ns)]
    unmasked_src = [k for k in range(ns) if not SM[src_idx[k]]]
    for j in range(nt):
        jm = _flat_to_multi(j, tshape, tgt.order)
        if TM[jm]:
            ctx.check(bool(gmask[jm]), "masked-target-cell-not-masked", {"sig": sig})
            continue
        ctx.check(not bool(gmask[jm]), "unmasked-target-cell-masked", {"sig": sig})
        dist = [float(np.linalg.norm(P[k] - Q[j])) for k in unmasked_src]
        m = min(dist)
        cand = [unmasked_src[i] for i, x in enumerate(dist) if x <= m + 1e-9]
        ok = None
        for k in cand:
            e = ctx.eq(got[jm], X[src_idx[k]])
            ok = e if ok is None else (ok | e)
        ctx.check(ok, "target-value-not-from-nearest-unmasked-source", {"sig": sig, "target": j, "scenario": scen})
    ctx.log("first", got.reshape(-1)[0])


EXPLANATION = (
    "Only the nearest-neighbour half of the property is within reach: which source location feeds a target location is "
    "decided by scipy's compiled KDTree on CONCRETE coordinates, so geometry cannot be symbolic; the linear half "
    "(RegularGridInterpolator / Qhull-based LinearNDInterpolator on float arrays) cannot be entered at all and is NOT "
    "claimed. What is checked: the real RegridNearest adapter (_get_info, _update_grid_specs, _get_in_coords/_get_out_coords, "
    "_get_data, to_compressed/from_compressed index plumbing) between a real Output and Input, with SYMBOLIC payload "
    "values in object arrays, over an engine-directed case split of source/target grid kind (uniform in every layout and "
    "order, unstructured cells, unstructured points, a mixed triangle/quad mesh whose cell centres the harness computes "
    "itself), data location, and source/target masks. Oracle: brute-force "
    "Euclidean nearest unmasked source location per unmasked target location from the grids' own data_points; z3 must "
    "refute delivered[j] ≠ X[i*] for all values (any of the nearest on ties); masked target cells stay masked; the "
    "'same geometry, different layout' families are the identity clause."
)
ASSUMPTIONS = ["concrete small geometries (2-D 3x4 / 4x5 points, 1-D, 3-D 2x3x2); target geometry in generic position",
               "linear regridding is not covered (compiled scipy kernels on float arrays)"]


def families(tier):
    q = tier == "quick"
    fams = []
    for dims in ([(3, 4)] if q else [(3, 4), (5,), (2, 3, 2)]):
        name = "x".join(map(str, dims))
        fams.append(dict(name=f"nearest:{name}", ref="vf.props.c16:h_nearest", params={"dims": list(dims)},
                         bounds=f"source geometry {dims} points, target a shifted/coarser geometry; grid kinds x layouts x "
                                f"orders x locations x masks; symbolic values", must_cover=["delivered"]))
        fams.append(dict(name=f"identity:{name}", ref="vf.props.c16:h_nearest",
                         params={"dims": list(dims), "same_geometry": True},
                         bounds=f"same geometry {dims} in two layouts (identity clause), masks on/off",
                         must_cover=["delivered"]))
    return fams
