"""C14 -- grid index-to-coordinate mapping is consistent for every layout."""
from __future__ import annotations

import copy

import numpy as np

from .. import hlib, symx
from ..hlib import fm
from .c15 import SymDimsGrid, _extent
from finam.data.grid_tools import Location


def h_shape(ctx):
    """Inherited shape logic with SYMBOLIC axis lengths on a real UniformGrid."""
    d = ctx.params["dim"]
    hlib.reset_finam_state()
    rev = ctx.flag("axes_reversed")
    inc = [ctx.flag(f"increase{i}") for i in range(d)]
    cells = ctx.flag("cells")
    n = [ctx.int(f"n{i}", lo=1, hi=ctx.params.get("max_len")) for i in range(d)]
    g = SymDimsGrid(n, axes_reversed=rev, axes_increase=inc,
                    data_location=Location.CELLS if cells else Location.POINTS)
    ext = [_extent(n[i], cells) for i in range(d)]
    want = ext[::-1] if rev else ext
    ds = g.data_shape
    for a in range(d):
        ctx.check(ctx.eq(ds[a], want[a]), "data-shape", {"sig": f"dim{d}"})
    size = 1
    for e in ext:
        size = size * e
    ctx.check(ctx.eq(g.data_size, size), "data-size", {"sig": f"dim{d}"})
    pc = 1
    cc = 1
    for i in range(d):
        pc = pc * n[i]
        cc = cc * _extent(n[i], True)
    ctx.check(ctx.eq(g.point_count, pc), "point-count")
    ctx.check(ctx.eq(g.cell_count, cc), "cell-count")
    # switching the location afterwards must be reflected (memoised shape/size)
    g.data_location = Location.POINTS if cells else Location.CELLS
    ext2 = [_extent(n[i], not cells) for i in range(d)]
    want2 = ext2[::-1] if rev else ext2
    ds2 = g.data_shape
    for a in range(d):
        ctx.check(ctx.eq(ds2[a], want2[a]), "data-shape-stale-after-location-change", {"sig": "memo"})
    size2 = 1
    for e in ext2:
        size2 = size2 * e
    ctx.check(ctx.eq(g.data_size, size2), "data-size-stale-after-location-change", {"sig": "memo"})
    ctx.cover("done")


AX = [np.array([0.0, 1.0, 2.5, 4.5]), np.array([10.0, 10.5, 12.0, 15.0]), np.array([-3.0, -1.0, 0.0, 4.0])]


def make_grid(kind, dims, order, rev, inc, cells):
    loc = Location.CELLS if cells else Location.POINTS
    if kind == "uniform":
        return fm.UniformGrid(dims, spacing=(1.0, 2.0, 0.5)[: len(dims)], origin=(10.0, 20.0, 30.0)[: len(dims)],
                              data_location=loc, order=order, axes_reversed=rev, axes_increase=inc)
    if kind == "rect":
        axes = []
        for i, nn in enumerate(dims):
            ax = AX[i][:nn].copy()
            axes.append(ax if inc[i] else ax[::-1].copy())
        return fm.RectilinearGrid(axes, data_location=loc, order=order, axes_reversed=rev)
    if kind == "esri":
        return fm.EsriGrid(ncols=dims[0] - 1, nrows=dims[1] - 1, cellsize=2.0, xllcorner=5.0, yllcorner=7.0,
                           order=order)
    raise ValueError(kind)


def check_layout(ctx, g, sig):
    d = g.dim
    ds = tuple(g.data_shape)
    ctx.check(int(np.prod(ds)) == g.data_size, "data-size-vs-shape", {"sig": sig})
    dp = np.atleast_2d(g.data_points)
    ctx.check(dp.shape == (g.data_size, d), "data-points-shape", {"sig": sig, "shape": str(dp.shape)})
    da = g.data_axes
    ctx.check(len(da) == d and all(len(da[a]) == ds[a] for a in range(d)), "data-axes-lengths", {"sig": sig})
    ok = True
    for idx in np.ndindex(*ds):
        coord_data_order = [da[a][idx[a]] for a in range(d)]
        xyz = coord_data_order[::-1] if g.axes_reversed else coord_data_order
        flat = int(np.ravel_multi_index(idx, ds, order=g.order))
        if not np.allclose(dp[flat], xyz):
            ok = False
            break
    ctx.check(ok, "data-axes-disagree-with-data-points", {"sig": sig})
    try:
        pts, cells_ = np.atleast_2d(g.points), g.cells
    except (symx.PathAbort, symx.SymbolicLeak, symx.HarnessError):
        raise
    except Exception as e:  # pylint: disable=broad-except
        ctx.fail("points-or-cells-raise", {"sig": sig, "error": type(e).__name__})
        return
    ctx.check(pts.shape[0] == g.point_count, "point-count")
    ctx.check(cells_.shape[0] == g.cell_count, "cell-count")
    ctx.check(bool(np.all(cells_ >= 0) and np.all(cells_ < g.point_count)), "cell-references-missing-point",
              {"sig": sig})
    cen = np.atleast_2d(g.cell_centers)
    if not (np.all(cells_ >= 0) and np.all(cells_ < g.point_count)):
        return  # reported above; the remaining checks would index out of range
    mean = np.array([pts[c].mean(axis=0) for c in cells_])
    ctx.check(cen.shape == mean.shape and bool(np.allclose(cen, mean)), "cell-centre-not-mean-of-nodes",
              {"sig": sig})
    # every cell really is the axis-aligned box spanned by its nodes, all cells distinct
    ctx.check(len({tuple(np.round(c, 9)) for c in cen}) == g.cell_count, "duplicate-cells", {"sig": sig})
    try:
        u = g.to_unstructured()
    except Exception as e:  # pylint: disable=broad-except
        ctx.fail("unstructured-cast-fails", {"sig": sig, "error": type(e).__name__})
        return
    ctx.check(bool(np.allclose(np.atleast_2d(u.points), pts)) and bool(np.array_equal(u.cells, cells_)),
              "unstructured-cast-points-cells", {"sig": sig})
    ctx.check(bool(np.allclose(np.atleast_2d(u.data_points), dp)), "unstructured-cast-data-points", {"sig": sig})
    ctx.check(bool(np.allclose(np.atleast_2d(u.cell_centers), cen)), "unstructured-cast-centres", {"sig": sig})
    ctx.check(u.data_size == g.data_size and u.data_location == g.data_location, "unstructured-cast-size",
              {"sig": sig})


def h_layout(ctx):
    p = ctx.params
    kind, dims = p["kind"], tuple(p["dims"])
    d = len(dims)
    hlib.reset_finam_state()
    order = "C" if ctx.flag("order_C") else "F"
    if kind == "esri":
        rev, inc, cells = True, [True, False], True
    else:
        rev = ctx.flag("axes_reversed")
        inc = [ctx.flag(f"increase{i}") if dims[i] > 1 else True for i in range(d)]
        cells = ctx.flag("cells")
    g = make_grid(kind, dims, order, rev, inc, cells)
    sig = f"{kind}:{'x'.join(map(str, dims))}:order={order}:rev={rev}:inc={inc}:{'cells' if cells else 'points'}"
    ctx.check(list(g.axes_increase) == list(inc) and g.axes_reversed == rev, "harness-flags", {"sig": sig})
    check_layout(ctx, g, sig)
    ctx.cover("done")


def h_ops(ctx):
    """Symbolic sequences of reads / copies / data-location changes on real grids."""
    p = ctx.params
    kind, dims, nops = p["kind"], tuple(p["dims"]), p["ops"]
    hlib.reset_finam_state()
    cells = ctx.flag("cells0")
    rev = ctx.flag("axes_reversed") if kind != "esri" else True
    inc = [True] * len(dims) if kind != "esri" else [True, False]
    if kind == "unstructured":
        base = make_grid("uniform", dims, "F", rev, inc, cells).to_unstructured()
    else:
        base = make_grid(kind, dims, "F", rev, inc, cells)
    g = base
    loc_cells = cells
    trace = []
    objs = [[base, cells]]  # every grid object created on the way, with the location IT should have
    for k in range(nops):
        op = ctx.choice(f"op{k}", 5)
        trace.append(op)
        if op == 0:
            _ = g.data_shape
        elif op == 1:
            _ = g.data_size
        elif op == 2:
            _ = g.data_points
        elif op == 3:
            g = g.copy(deep=bool(k % 2))
            objs.append([g, loc_cells])
        else:
            if kind == "esri":
                continue
            loc_cells = not loc_cells
            # the documented ways of naming a location: the enum member, its name, its value
            member = Location.CELLS if loc_cells else Location.POINTS
            form = ctx.choice(f"locform{k}", 3)
            g.data_location = [member, member.name, member.value][form]
            objs[-1][1] = loc_cells
            ctx.check(g.data_location is member, "data-location-not-the-member-set",
                      {"sig": f"form{form}", "got": repr(g.data_location)})

    def fresh_for(lc):
        if kind == "unstructured":
            return make_grid("uniform", dims, "F", rev, inc, lc).to_unstructured()
        return make_grid(kind, dims, "F", rev, inc, lc)

    sig = f"{kind}:{trace}"
    for n_obj, (obj, lc) in enumerate(objs):
        fresh = fresh_for(lc)
        which = "current" if obj is g else f"earlier-object-{n_obj}"
        ctx.check(tuple(obj.data_shape) == tuple(fresh.data_shape), "data-shape-stale",
                  {"sig": "stale-shape:" + which.split("-")[0], "trace": sig})
        ctx.check(obj.data_size == fresh.data_size, "data-size-stale", {"sig": "stale-size:" + which.split("-")[0], "trace": sig})
        a, b = np.atleast_2d(obj.data_points), np.atleast_2d(fresh.data_points)
        ctx.check(a.shape == b.shape and bool(np.allclose(a, b)), "data-points-stale",
                  {"sig": "stale-points:" + which.split("-")[0], "trace": sig})
    ctx.cover("done")


EXPLANATION = (
    "Three parts, all driven by the symx engine (z3 decides branch feasibility / obligations). (shape) The real inherited "
    "StructuredGrid.data_shape / data_size / point_count / cell_count and RectilinearGrid's memoised data_shape/"
    "data_size run on a real UniformGrid whose axis lengths are SYMBOLIC integers >= 1 (layout flags and location by "
    "forking); z3 proves the closed forms for all axis lengths, and that they follow a later change of data_location. "
    "(layout) For concrete small grids (each axis 1-4 points, 1-3 dimensions, degenerate axes) of the real Uniform/"
    "Rectilinear/ESRI classes and every combination of order, axes_reversed, per-axis direction and location: element i "
    "located by data_axes equals row ravel(i, order) of data_points, cell centres equal the mean of their nodes, cells "
    "reference existing points, and the unstructured cast preserves all of it. (ops) Every sequence of <= 4-5 reads, "
    "copies and data_location changes leaves shape/size/points equal to a freshly built grid. Parts (layout) and (ops) "
    "have concrete coordinates: they are a complete, engine-directed case split over a finite product, not a symbolic "
    "claim -- the coordinate arithmetic lives in numpy float kernels the proxies cannot enter."
)
ASSUMPTIONS = ["(layout)/(ops): concrete irregular coordinates; dims up to 4 points per axis"]


def families(tier):
    q = tier == "quick"
    fams = []
    for d in (1, 2, 3):
        fams.append(dict(name=f"shape:{d}d:unbounded", ref="vf.props.c14:h_shape", params={"dim": d},
                         bounds=f"{d}-D real UniformGrid, symbolic axis lengths >= 1, all flags, both locations",
                         must_cover=["done"], validate=False))
        fams.append(dict(name=f"shape:{d}d:len<=4", ref="vf.props.c14:h_shape", params={"dim": d, "max_len": 4},
                         bounds=f"{d}-D, axis lengths 1..4, cross-validated with concrete ints on every path",
                         must_cover=["done"]))
    dimsets = [(4,), (1,), (3, 4), (3, 1), (1, 3), (2, 2)] if q else \
        [(4,), (1,), (2,), (3, 4), (4, 3), (3, 1), (1, 3), (2, 2), (1, 1), (3, 3, 2), (2, 3, 4), (3, 1, 2),
         (1, 3, 3), (2, 2, 1), (1, 1, 3)]
    if q:
        dimsets += [(3, 2, 3)]
    for kind in ("uniform", "rect"):
        for dims in dimsets:
            fams.append(dict(name=f"layout:{kind}:{'x'.join(map(str, dims))}", ref="vf.props.c14:h_layout",
                             params={"kind": kind, "dims": list(dims)},
                             bounds=f"{kind} grid with {dims} points; order x axes_reversed x per-axis direction x location",
                             must_cover=["done"], workers=4))
    for dims in ([(3, 4)] if q else [(3, 4), (2, 2), (4, 2), (2, 5)]):
        fams.append(dict(name=f"layout:esri:{'x'.join(map(str, dims))}", ref="vf.props.c14:h_layout",
                         params={"kind": "esri", "dims": list(dims)},
                         bounds=f"ESRI grid with {dims} points; both orders", must_cover=["done"], workers=2))
    for kind, dims in [("uniform", (3, 4)), ("rect", (3, 2, 2)), ("esri", (3, 4)), ("unstructured", (3, 3))]:
        fams.append(dict(name=f"ops:{kind}", ref="vf.props.c14:h_ops",
                         params={"kind": kind, "dims": list(dims), "ops": 4 if q else 5},
                         bounds=f"{kind} grid {dims}; every sequence of {4 if q else 5} operations out of (read shape, "
                                f"read size, read data_points, copy, toggle data_location)",
                         must_cover=["done"]))
    return fams
