"""C07 -- after connect both ends of every link agree on metadata; conflicts are rejected."""
from __future__ import annotations

import numpy as np

from .. import hlib, symx
from ..hlib import fm
from .c18 import PHYS, _mask
from finam.data import tools as dtools
from finam.data.tools import Mask
from finam.errors import FinamMetaDataError, FinamNoDataError

REF = lambda: fm.UniformGrid((3, 4))  # noqa: E731
GRIDS = {
    "unset": lambda: None,
    "G": lambda: fm.UniformGrid((3, 4)),
    "G_rev": lambda: fm.UniformGrid((3, 4), axes_reversed=True),
    "G_flip": lambda: fm.UniformGrid((3, 4), axes_increase=[True, False]),
    "H": lambda: fm.UniformGrid((3, 4), spacing=(2.0, 1.0)),  # other geometry, same shape
    "nogrid": lambda: fm.NoGrid(2),
    # grid-less data of the same rank with explicitly declared, different shapes
    "nogrid3": lambda: fm.NoGrid(data_shape=(3,)),
    "nogrid5": lambda: fm.NoGrid(data_shape=(5,)),
    # square grid (3x3 cells: a transpose keeps the shape), three layouts
    "S": lambda: fm.UniformGrid((4, 4)),
    "S_rev_flip": lambda: fm.UniformGrid((4, 4), axes_reversed=True, axes_increase=[True, False]),
    "S_flip": lambda: fm.UniformGrid((4, 4), axes_increase=[False, True]),
    # one-dimensional grids (4 cells), x increasing / decreasing
    "L": lambda: fm.UniformGrid((5,)),
    "L_flip": lambda: fm.UniformGrid((5,), axes_increase=[False]),
    # the same unstructured mesh (5 points, 5 triangles: equal counts) with data on points / on cells
    "U_points": lambda: _mesh("POINTS"),
    "U_cells": lambda: _mesh("CELLS"),
}


def _mesh(loc):
    pts = [[0.0, 0.0], [4.0, 0.0], [2.0, 4.0], [1.5, 1.0], [2.5, 1.0]]
    cells = [[0, 1, 3], [1, 4, 3], [1, 2, 4], [2, 3, 4], [0, 3, 2]]
    return fm.UnstructuredGrid(pts, cells, [fm.CellType.TRI] * 5, data_location=loc)
UNITS = ["unset", "m", "km", "s"]
MASKS = ["FLEX", "NONE", "A", "B", "nomask", "all-false"]
ARRAY_MASKS = ("A", "B", "nomask", "all-false")


PHYS1 = {"A": np.array([True, True, False, False]), "B": np.array([False, True, False, True]),
         "all-false": np.zeros(4, bool)}


def _mask1(name, grid):
    """1-D mask given physically (along increasing x), expressed in the layout of ``grid``"""
    arr = PHYS1[name]
    return arr.copy() if grid.axes_increase[0] else arr[::-1].copy()


def _phys(name):
    return np.zeros((2, 3), bool) if name in ("nomask", "all-false") else PHYS[name]


def _info(ctx, side, grid_opts, unit_opts, mask_opts, vary_time, vary_foo):
    g = grid_opts[ctx.choice(side + "_grid", len(grid_opts))]
    u = unit_opts[ctx.choice(side + "_units", len(unit_opts))]
    m = mask_opts[ctx.choice(side + "_mask", len(mask_opts))]
    t = ctx.flag(side + "_time_set") if vary_time else True
    foo = ["absent", "set", "none"][ctx.choice(side + "_foo", 3)] if vary_foo else "absent"
    return dict(grid=g, units=u, mask=m, time=t, foo=foo)


def _build(spec, side):
    grid = GRIDS[spec["grid"]]()
    mask = spec["mask"]
    if mask in ("A", "B", "all-false") and spec["grid"] in ("L", "L_flip"):
        mask = _mask1(mask, grid)
    elif mask in ("A", "B") and spec["grid"].startswith("S"):
        mask = _mask(mask + "3", ref_grid=fm.UniformGrid((4, 4)), grid=grid)
    elif mask == "all-false" and spec["grid"].startswith("S"):
        mask = np.zeros((3, 3), bool)
    elif mask in ("A", "B", "all-false"):
        mg = grid if isinstance(grid, fm.UniformGrid) else None
        mask = _mask(mask, ref_grid=REF(), grid=mg)
    elif mask == "nomask":
        mask = np.ma.nomask
    else:
        mask = {"FLEX": Mask.FLEX, "NONE": Mask.NONE}[mask]
    meta = {"units": None if spec["units"] == "unset" else spec["units"]}
    if spec["foo"] == "set":
        meta["foo"] = side
    elif spec["foo"] == "none":
        meta["foo"] = None
    return fm.Info(time=hlib.T0 if spec["time"] else None, grid=grid, mask=mask, **meta)


def _same_locations(a, b):
    if isinstance(a, fm.NoGrid) or isinstance(b, fm.NoGrid):
        return (isinstance(a, fm.NoGrid) and isinstance(b, fm.NoGrid) and a.dim == b.dim
                and tuple(a.data_shape) == tuple(b.data_shape))
    if isinstance(a, fm.UnstructuredGrid) != isinstance(b, fm.UnstructuredGrid):
        return False
    pa = {tuple(np.round(p, 9)) for p in a.data_points}
    pb = {tuple(np.round(p, 9)) for p in b.data_points}
    return pa == pb


DIM = {"m": "L", "km": "L", "s": "T"}


def _oracle(prod, cons):
    """Expected outcome of one link exchange; returns (ok, updated producer spec)."""
    p = dict(prod)
    # grid
    if p["grid"] == "unset" and cons["grid"] == "unset":
        return False, p
    if p["grid"] != "unset" and cons["grid"] != "unset":
        if not _same_locations(GRIDS[p["grid"]](), GRIDS[cons["grid"]]()):
            return False, p
    # units
    if p["units"] == "unset" and cons["units"] == "unset":
        return False, p
    if p["units"] != "unset" and cons["units"] != "unset" and DIM[p["units"]] != DIM[cons["units"]]:
        return False, p
    # time
    if not p["time"] and not cons["time"]:
        return False, p
    # extra meta
    if p["foo"] == "none" and cons["foo"] != "set":
        return False, p
    # mask (C18 rule); array masks need a grid on the side that declares them
    cm, pm = cons["mask"], p["mask"]
    if cm == "NONE" and pm != "NONE":
        return False, p
    if cm in ARRAY_MASKS and (pm not in ARRAY_MASKS or not np.array_equal(_phys(pm), _phys(cm))):
        return False, p
    # fields the producer takes over
    if p["grid"] == "unset":
        p["grid"] = cons["grid"]
    if p["units"] == "unset":
        p["units"] = cons["units"]
    if not p["time"]:
        p["time"] = True
    if p["foo"] == "none":
        p["foo"] = "set:consumer"
    return True, p


def h_link(ctx):
    par = ctx.params
    hlib.reset_finam_state()
    prod = _info(ctx, "p", par["grids"], par["units"], par["masks"], par["vary_time"], par["vary_foo"])
    ncons = par.get("consumers", 1)
    cons = [_info(ctx, f"c{k}", par["grids"], par["units"], par["masks"], par["vary_time"], par["vary_foo"])
            for k in range(ncons)]
    # array masks without any grid on that side cannot be expressed: skip those combinations
    for s in [prod] + cons:
        if s["mask"] in ("A", "B", "all-false") and s["grid"] in ("unset", "nogrid", "U_points", "U_cells"):
            ctx.cut("mask-without-grid")
    out = fm.Output(name="out", info=_build(prod, "producer"))
    ins = []
    for k, c in enumerate(cons):
        i = fm.Input(name=f"in{k}", info=_build(c, f"consumer{k}"))
        out >> i
        ins.append(i)
    for i in ins:
        i.ping()
    state = prod
    for k, (i, c) in enumerate(zip(ins, cons)):
        exp_ok, state = _oracle(state, c)
        try:
            i.exchange_info()
            res = "ok"
        except FinamMetaDataError:
            res = "meta-error"
        except (symx.PathAbort, symx.SymbolicLeak, symx.HarnessError):
            raise
        except Exception as e:  # pylint: disable=broad-except
            res = "other:" + type(e).__name__
            ctx.log("err", type(e).__name__)
        sig = f"p={prod}|c={c}"
        ctx.log(f"res{k}", res)
        ctx.cover(res.split(":")[0])
        ctx.check(res == ("ok" if exp_ok else "meta-error"), "link-accepted-iff-metadata-compatible",
                  {"sig": f"expected={'ok' if exp_ok else 'meta-error'}:got={res}", "scenario": sig})
        if res != "ok" or not exp_ok:
            return
        inf = i.info
        ctx.check(inf.grid is not None and inf.time is not None and inf.units is not None and inf.mask is not None
                  and all(v is not None for v in inf.meta.values()), "input-info-has-unset-field", {"sig": sig})
        oinf = out._output_info
        ctx.check(oinf.grid is not None and oinf.time is not None and oinf.units is not None,
                  "output-info-has-unset-field", {"sig": sig})
        ctx.check(_same_locations(inf.grid, oinf.grid), "input-grid-not-the-delivered-locations", {"sig": sig})
        ctx.check(dtools.compatible_units(inf.units, oinf.units), "input-units-not-convertible", {"sig": sig})
        if c["grid"] != "unset":
            ctx.check(bool(inf.grid == GRIDS[c["grid"]]()), "consumer-grid-not-kept", {"sig": sig})
        if c["units"] != "unset":
            ctx.check(inf.units == fm.UNITS.Unit(c["units"]), "consumer-units-not-kept", {"sig": sig})
        else:
            ctx.check(inf.units == oinf.units, "unset-units-not-taken-from-producer", {"sig": sig})
        if c["foo"] == "set":
            ctx.check(inf.meta.get("foo") == f"consumer{k}", "consumer-meta-not-kept")
        elif state["foo"].startswith("set"):
            ctx.check(inf.meta.get("foo") is not None, "meta-not-taken-from-producer")
        # mask requirement / carried-over mask, physically, in the INPUT's grid layout
        pm = state["mask"]
        if pm in ("A", "B") and isinstance(inf.grid, fm.UniformGrid):
            if inf.grid.dim == 1:
                want = _mask1(pm, inf.grid)
            elif tuple(inf.grid.dims) == (4, 4):
                want = _mask(pm + "3", ref_grid=fm.UniformGrid((4, 4)), grid=inf.grid)
            else:
                want = _mask(pm, ref_grid=REF(), grid=inf.grid)
            got = inf.mask
            ctx.check(isinstance(got, np.ndarray) and got.shape == want.shape and bool(np.array_equal(got, want)),
                      "input-mask-not-in-input-grid-layout", {"sig": f"pgrid={state['grid']}:cgrid={c['grid']}"})
    ctx.cover("all-links-ok")


def h_rewrite(ctx):
    """adapters that rewrite metadata: ValueToGrid, GridToValue, SumOverTime(per_time)."""
    hlib.reset_finam_state()
    kind = ["value_to_grid", "value_to_grid_from_target", "grid_to_value", "sum_per_time"][ctx.choice("adapter", 4)]
    cgrid = ["unset", "G", "H", "nogrid0"][ctx.choice("c_grid", 4)]
    cunits = ["unset", "m", "m*s", "s"][ctx.choice("c_units", 4)]
    G, H = fm.UniformGrid((3, 4)), fm.UniformGrid((3, 4), spacing=(2.0, 1.0))
    grid_of = {"unset": None, "G": G, "H": H, "nogrid0": fm.NoGrid()}
    if kind in ("value_to_grid", "value_to_grid_from_target"):
        pinfo = fm.Info(time=hlib.T0, grid=fm.NoGrid(), units="m")
        ada = fm.adapters.ValueToGrid(G if kind == "value_to_grid" else None)
        # without a grid of its own and none requested the adapter degenerates to a pass-through of the value
        delivered_grid = G if kind == "value_to_grid" else (grid_of[cgrid] if cgrid != "unset" else fm.NoGrid())
        delivered_units = "m"
    elif kind == "grid_to_value":
        pinfo = fm.Info(time=hlib.T0, grid=G, units="m")
        ada = fm.adapters.GridToValue(np.mean)
        delivered_grid, delivered_units = fm.NoGrid(), "m"
    else:
        pinfo = fm.Info(time=hlib.T0, grid=G, units="m")
        ada = fm.adapters.SumOverTime(per_time=True)
        delivered_grid, delivered_units = G, "m*s"
    out = fm.Output(name="out", info=pinfo)
    inp = fm.Input(name="in", info=fm.Info(time=hlib.T0, grid=grid_of[cgrid],
                                           units=None if cunits == "unset" else cunits))
    out >> ada >> inp
    inp.ping()
    ok_grid = delivered_grid is not None and (cgrid == "unset" or _cmp_grid(grid_of[cgrid], delivered_grid))
    ok_units = cunits == "unset" or dtools.compatible_units(cunits, delivered_units)
    exp = "ok" if ok_grid and ok_units else "meta-error"
    try:
        inp.exchange_info()
        res = "ok"
    except FinamMetaDataError:
        res = "meta-error"
    except (symx.PathAbort, symx.SymbolicLeak, symx.HarnessError):
        raise
    except Exception as e:  # pylint: disable=broad-except
        res = "other:" + type(e).__name__
        ctx.log("err", type(e).__name__)
    sig = f"{kind}:cgrid={cgrid}:cunits={cunits}"
    ctx.cover(res.split(":")[0])
    ctx.log("res", res)
    ctx.check(res == exp, "rewriting-adapter-link-accepted-iff-compatible", {"sig": f"{sig}:expected={exp}:got={res}"})
    if res == "ok" and exp == "ok":
        inf = inp.info
        ctx.check(inf.grid is not None and inf.units is not None and inf.time is not None, "input-info-has-unset-field")
        ctx.check(_cmp_grid(inf.grid, delivered_grid), "input-grid-not-the-delivered-grid", {"sig": sig})
        ctx.check(dtools.compatible_units(inf.units, delivered_units), "input-units-not-convertible", {"sig": sig})
        # data really flows and arrives in the agreed form
        shape = pinfo.grid.data_shape if isinstance(pinfo.grid, fm.UniformGrid) else ()
        out.push_data(np.full(shape, 2.0), hlib.T0)
        d = inp.pull_data(hlib.T0)
        want_shape = (1,) + (tuple(inf.grid.data_shape) if isinstance(inf.grid, fm.UniformGrid) else ())
        ctx.check(tuple(d.shape) == want_shape and d.units == inf.units, "delivered-data-disagrees-with-metadata",
                  {"sig": sig, "shape": str(d.shape)})


def _cmp_grid(a, b):
    if isinstance(a, fm.NoGrid) or isinstance(b, fm.NoGrid):
        return (isinstance(a, fm.NoGrid) and isinstance(b, fm.NoGrid) and a.dim == b.dim
                and tuple(a.data_shape) == tuple(b.data_shape))
    return _same_locations(a, b)


EXPLANATION = (
    "Engine-directed complete case split (symx; z3 decides which combinations are feasible paths) over the set/unset/"
    "compatible/incompatible choices for grid (unset, G, G in two other layouts, another geometry, NoGrid), units (unset, m, "
    "km, s), mask (FLEX, NONE, two fixed masks re-expressed per layout), time (set/unset) and an extra metadata key on the "
    "producer and on one or two consumers, through the real Output.get_info / Input.exchange_info / Adapter.get_info / "
    "Info.accepts / copy_with code, plus the metadata-rewriting adapters ValueToGrid, GridToValue and "
    "SumOverTime(per_time). Oracle written from the statement: accepted iff every field is set on at least one side and "
    "the set values agree (same data locations, same dimension, mask rule); afterwards no unset field, consumer-set values "
    "kept, unset ones taken from the other side (both directions), fixed masks expressed in the input's own grid layout, "
    "and data pushed through arrives in the agreed shape and units. No arithmetic is symbolic here: the property is "
    "structural, the solver's role is the exhaustive, feasibility-checked enumeration."
)
ASSUMPTIONS = ["field interactions are explored in two sub-products (grid x mask, units x time x extra meta) rather than "
               "the full product", "array masks are only declared together with a structured grid"]


def families(tier):
    q = tier == "quick"
    allg = [g for g in GRIDS if g not in ("L", "L_flip", "nogrid3", "nogrid5") and not g.startswith("S")]
    fams = [
        dict(name="link:grid_x_mask", ref="vf.props.c07:h_link",
             params={"grids": allg, "units": ["m"], "masks": MASKS, "vary_time": False, "vary_foo": False},
             bounds="producer x consumer: 6 grid options x 6 mask options, units/time fixed", must_cover=["ok", "meta-error"]),
        dict(name="link:1d_grid_x_mask", ref="vf.props.c07:h_link",
             params={"grids": ["unset", "L", "L_flip"], "units": ["m"], "masks": MASKS, "vary_time": False,
                     "vary_foo": False},
             bounds="producer x consumer: one-dimensional grid (x increasing / decreasing / unset) x 6 mask options",
             must_cover=["ok", "meta-error"]),
        dict(name="link:square_grid_x_mask", ref="vf.props.c07:h_link",
             params={"grids": ["unset", "S", "S_rev_flip", "S_flip"], "units": ["m"], "masks": ["FLEX", "A", "B", "nomask"],
                     "vary_time": False, "vary_foo": False},
             bounds="producer x consumer: square 3x3-cell grid in three layouts (plain, transposed + flipped, flipped) or "
                    "unset x masks FLEX / two masks no transpose or flip maps onto themselves / nomask",
             must_cover=["ok", "meta-error"]),
        dict(name="link:nogrid_shapes", ref="vf.props.c07:h_link",
             params={"grids": ["unset", "nogrid3", "nogrid5", "L"], "units": ["m"], "masks": ["FLEX"], "vary_time": False,
                     "vary_foo": False, "consumers": 2},
             bounds="one producer, two consumers: grid-less data with explicitly declared shape (3,) / (5,), a 1-D grid, unset",
             must_cover=["ok", "meta-error"]),
        dict(name="link:unstructured_location", ref="vf.props.c07:h_link",
             params={"grids": ["unset", "U_points", "U_cells", "G"], "units": ["m"], "masks": ["FLEX"],
                     "vary_time": False, "vary_foo": False},
             bounds="producer x consumer over an unstructured mesh with equal numbers of points and cells (data on points / "
                    "cells), a structured grid, unset", must_cover=["ok", "meta-error"]),
        dict(name="link:units_x_time_x_meta", ref="vf.props.c07:h_link",
             params={"grids": ["G", "unset"], "units": UNITS, "masks": ["FLEX"], "vary_time": True, "vary_foo": True},
             bounds="producer x consumer: 2 grid x 4 units x time set/unset x extra meta absent/set/None",
             must_cover=["ok", "meta-error"]),
        dict(name="link:two_consumers", ref="vf.props.c07:h_link",
             params={"grids": ["unset", "G", "G_rev", "H"], "units": ["unset", "m", "km", "s"] if not q else ["unset", "m", "s"],
                     "masks": ["FLEX"], "vary_time": False, "vary_foo": False, "consumers": 2},
             bounds="one producer, two consumers exchanging in order: grid and units options on all three",
             must_cover=["ok", "meta-error", "all-links-ok"]),
        dict(name="rewrite:adapters", ref="vf.props.c07:h_rewrite", params={},
             bounds="ValueToGrid (own / target grid), GridToValue, SumOverTime(per_time) x consumer grid x consumer units",
             must_cover=["ok", "meta-error"]),
    ]
    return fams
