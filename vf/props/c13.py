"""C13 -- delay adapters deliver exactly the source's data for the shifted time."""
from __future__ import annotations

import numpy as np

from .. import hlib, sched, topos
from ..hlib import fm
from finam.errors import FinamNoDataError, FinamTimeError
from finam.sdk.output import Output


class SpecFixed:
    def __init__(self, delay):
        self.delay = delay

    def shift(self, t, start, newest):
        off = t - self.delay
        return start if bool(off < start) else off

    def pulled(self, t):
        pass


class SpecPull:
    """n-th previous request minus the extra delay, not before the start time."""

    def __init__(self, n, extra):
        self.n, self.extra = n, extra
        self.requests = []  # all previous requests seen by this adapter

    def shift(self, t, start, newest):
        k = len(self.requests) + 1  # this is the k-th request
        base = start if k - self.n < 1 else self.requests[k - self.n - 1]
        off = base - self.extra
        return start if bool(off < start) else off

    def pulled(self, t):
        self.requests.append(t)


class SpecPush:
    def shift(self, t, start, newest):
        if newest is None:
            return start
        return newest if bool(t > newest) else t

    def pulled(self, t):
        pass


def _make(ctx, kind, tag):
    if kind == "scale":
        return fm.adapters.Scale(2.0), None
    if kind == "dfix":
        d = ctx.td("d_" + tag, lo_us=0)
        return fm.adapters.DelayFixed(d), SpecFixed(d)
    if kind.startswith("dpull"):
        n = int(kind[5:])
        d = ctx.td("x_" + tag, lo_us=0)
        return fm.adapters.DelayToPull(steps=n, additional_delay=d), SpecPull(n, d)
    if kind == "dpush":
        return fm.adapters.DelayToPush(), SpecPush()
    raise ValueError(kind)


def h_chain(ctx):
    chain, pattern = ctx.params["chain"], ctx.params["pattern"]
    hlib.reset_finam_state()
    t0 = ctx.dt("t0")
    adas, specs = [], []
    for i, k in enumerate(chain):
        a, s = _make(ctx, k, str(i))
        adas.append(a)
        specs.append(s)
    out, inp = hlib.linked_pair(fm.Info(time=t0, grid=fm.NoGrid(), units="m"), adapters=adas)
    seen = []

    def before(spy, o, time, target):
        if o is out:
            seen.append(time)

    ret = []

    def after(spy, o, a, k, r, e):
        if o is out:
            ret.append(None if e is not None else float(hlib.tagval(r)))

    times = []
    prev_r = None
    ri = 0
    nscale = sum(1 for k in chain if k == "scale")
    with hlib.Spy() as spy:
        spy.wrap(Output, "get_data", before=before, after=after)
        for ev in pattern:
            if ev == "P":
                t = t0 if not times else times[-1] + ctx.td(f"g{len(times) - 1}", lo_us=1)
                out.push_data(np.array(float(len(times))), t)
                times.append(t)
                continue
            r = ctx.dt(f"r{ri}")
            ctx.assume(r >= (prev_r if prev_r is not None else t0))
            prev_r = r
            # specification: shifts in pull order (input side first), accumulating
            t_spec = r
            arrivals = []
            newest = times[-1] if times else None
            for s in reversed(specs):
                arrivals.append(t_spec)
                if s is not None:
                    t_spec = s.shift(t_spec, t0, newest)
            del seen[:], ret[:]
            try:
                d = inp.pull_data(r)
                res = "ok"
            except FinamTimeError:
                res = "time-error"
            except FinamNoDataError:
                res = "no-data"
            for s, arr in zip(reversed(specs), arrivals):
                if s is not None:
                    s.pulled(arr)
            ctx.cover("req:" + res)
            ctx.log(f"req{ri}", [res, seen[0] if seen else None])
            if len(seen) != 1:
                ctx.fail("source-asked-not-exactly-once", {"sig": str(len(seen))})
            else:
                ctx.check(ctx.eq(seen[0], t_spec), "source-asked-for-wrong-time",
                          {"sig": "+".join(chain), "req": ri})
                if res == "ok":
                    got = float(hlib.tagval(d))
                    ctx.check(got == ret[0] * (2.0 ** nscale), "delivered-data-not-the-source-data")
            ri += 1
            if res != "ok":
                # a refused pull leaves the adapter without a record of that request; real runs abort here
                return


def h_notify(ctx):
    """Requests issued from INSIDE the notification of a publication (push-type consumer behind the chain): the
    delay-to-push rule min(t, newest publication) must already count the publication being announced."""
    chain, npub = ctx.params["chain"], ctx.params["publications"]
    hlib.reset_finam_state()
    t0 = ctx.dt("t0")
    adas, specs = [], []
    for i, k in enumerate(chain):
        a, s_ = _make(ctx, k, str(i))
        adas.append(a)
        specs.append(s_)
    out = Output(name="out", info=fm.Info(time=t0, grid=fm.NoGrid(), units="m"))
    seen, ret, results = [], [], []
    state = {"newest": None, "k": 0}
    nscale = sum(1 for k in chain if k == "scale")

    def callback(caller, time):
        # the consumer reacts to the notification by pulling the announced time
        t_spec = time
        arrivals = []
        for s_ in reversed(specs):
            arrivals.append(t_spec)
            if s_ is not None:
                t_spec = s_.shift(t_spec, t0, state["newest"])
        del seen[:], ret[:]
        try:
            d = caller.pull_data(time)
            res = "ok"
        except FinamTimeError:
            res = "time-error"
        except FinamNoDataError:
            res = "no-data"
        for s_, arr in zip(reversed(specs), arrivals):
            if s_ is not None:
                s_.pulled(arr)
        results.append((res, t_spec, list(seen), list(ret), d if res == "ok" else None))

    inp = fm.CallbackInput(callback, name="in", info=fm.Info(time=None, grid=None, units=None))
    cur = out
    for a in adas:
        cur = cur >> a
    cur >> inp
    inp.ping()
    inp.exchange_info()
    times = []
    with hlib.Spy() as spy:
        spy.wrap(Output, "get_data", before=lambda sp, o, time, target: seen.append(time) if o is out else None,
                 after=lambda sp, o, a, k, r, e: ret.append(None if e is not None else float(hlib.tagval(r)))
                 if o is out else None)
        for i in range(npub):
            t = t0 if not times else times[-1] + ctx.td(f"g{i - 1}", lo_us=1)
            times.append(t)
            state["newest"] = t  # the publication being announced is the newest one
            n_before = len(results)
            out.push_data(np.array(float(i)), t)
            ctx.check(len(results) == n_before + 1, "consumer-not-notified-exactly-once", {"sig": "+".join(chain)})
            if len(results) != n_before + 1:
                return
            res, t_spec, seen_, ret_, d = results[-1]
            ctx.cover("notified:" + res)
            ctx.log(f"pub{i}", [res, seen_[0] if seen_ else None])
            if res != "ok":
                ctx.fail("request-from-notification-refused", {"sig": "+".join(chain) + ":" + res})
                return
            if len(seen_) != 1:
                ctx.fail("source-asked-not-exactly-once", {"sig": str(len(seen_))})
                return
            ctx.check(ctx.eq(seen_[0], t_spec), "source-asked-for-wrong-time", {"sig": "+".join(chain) + ":notify", "pub": i})
            ctx.check(float(hlib.tagval(d)) == ret_[0] * (2.0 ** nscale), "delivered-data-not-the-source-data")


EXPLANATION = (
    "Bounded symbolic execution (symx proxies + z3) of the real DelayFixed/DelayToPull/DelayToPush.with_delay, "
    "TimeDelayAdapter.get_data/_pulled and Adapter/Scale.get_data in chains of 1-3 delay adapters behind a real "
    "Output and in front of a real Input. Delays, extra delays, publication gaps and request times are symbolic "
    "integer microseconds; a spy on the source Output.get_data captures the time that really arrives. Oracle: an "
    "independent re-statement of the documented shifts (max(t-d,start); n-th previous request minus extra, not "
    "before start; min(t, newest publication)) composed in pull order; z3 must refute PC ∧ t_arrived ≠ t_spec; the "
    "delivered payload must be the payload the source returned for that time. The same equality is asserted inside "
    "real Composition runs (what the driver scheduled for = what is requested) on delay topologies. The 'notify' "
    "families put a push-type consumer (CallbackInput) behind the chain that pulls the announced time from inside "
    "every publication notification: the newest publication must already count for min(t, newest)."
)
ASSUMPTIONS = ["requests are non-decreasing and not before the start time",
               "a scenario ends at the first pull the source refuses (a run aborts there)",
               "delays and extra delays are >= 0"]


def families(tier):
    q = tier == "quick"
    table = [
        (["dfix"], "PPPRRR", "PPPPRRRR"),
        (["dpull1"], "PPPRRR", "PPPPRRRR"),
        (["dpull2"], "PPPRRRR", "PPPRRRRR"),
        (["dpull3"], None, "PPPRRRRR"),
        (["dpush"], "PRPRPR", "PRPRPRPR"),
        (["dfix", "dfix"], "PPPRR", "PPPRRR"),
        (["dfix", "scale", "dfix"], None, "PPPRRR"),
        (["dpull2", "dfix"], "PPPRRR", "PPPRRRR"),
        (["dfix", "dpull2"], None, "PPPRRRR"),
        (["dfix", "dpush"], None, "PRPRPR"),
        (["scale", "dpush"], "PRPRPR", "PRPRPRPR"),
        (["dpush", "scale"], None, "PRPRPR"),
        (["dpush", "dfix"], None, "PRPRPR"),
        (["dfix", "dfix", "dfix"], None, "PPPRR"),
        (["dfix", "dpull2", "scale", "dfix"], None, "PPPRRR"),
    ]
    fams = []
    for chain, pq, pt in table:
        pat = pq if q else pt
        if not pat:
            continue
        fams.append(dict(
            name="chain:" + "+".join(chain), ref="vf.props.c13:h_chain",
            params={"chain": chain, "pattern": pat},
            bounds=f"adapter chain (source side first) {chain}; event pattern {pat}; symbolic delays >= 0, gaps >= 1 us, "
                   f"non-decreasing requests >= start",
            must_cover=["req:ok"]))
    for chain in ([["dpush"], ["scale", "dpush"], ["dpush", "scale"]] if q else
                  [["dpush"], ["scale", "dpush"], ["dpush", "scale"], ["dfix", "dpush"], ["dpush", "dfix"], ["dfix"],
                   ["dpull2"]]):
        fams.append(dict(
            name="notify:" + "+".join(chain), ref="vf.props.c13:h_notify",
            params={"chain": chain, "publications": 3 if q else 4},
            bounds=f"adapter chain (source side first) {chain} in front of a push-type consumer that pulls the announced "
                   f"time from inside every notification; {3 if q else 4} publications with symbolic gaps",
            must_cover=["notified:ok"]))
    D, R = topos.DAGS, topos.RINGS_OK
    runs = [("ab_dfix", D["ab_dfix"], 4, 6, {}), ("ab_dpull", D["ab_dpull"], 4, 6, {}),
            ("ab_dpush", D["ab_dpush"], 0, 6, {}),
            ("a_p_dfix_b", D["a_p_dfix_b"], 3, 5, {}),
            ("ring2_dfix_scale_dfix", R["ring2_dfix_scale_dfix"], 0, 4, {"delay_sum_ge_steps": True}),
            ("ring2_three", R["ring2_three"], 3, 4, {"delay_sum_ge_steps": True})]
    for name, topo, uq, ut, kw in runs:
        u = uq if q else ut
        if u:
            # C13's scheduling half ("the shifted time is what the driver assumes when scheduling"): the driver
            # oracles of C01/C02 (no update before the shifted input is available, none that is not needed)
            fams.append(sched.run_family("C13", name, topo, u, props=["C13", "C02", "C01"], **kw))
    for name, topo, kw in [("a_p_dfix_b", D["a_p_dfix_b"], {}), ("ab_dfix", D["ab_dfix"], {}),
                           ("ab_dpull", D["ab_dpull"], {}),
                           ("ring2_pull_delay_after", R["ring2_pull_delay_after"], {"delay_sum_ge_steps": True})]:
        fams.append(sched.step_family("C13", name, topo, props=["C13", "C02", "C01", "C04"], **kw))
    if not q:
        from .. import chsrc
        fams.append(dict(name="crosshair:with_delay", kind="crosshair", ref="vf.chrun:replay", src=chsrc.DELAYS, params={},
                         bounds="CrossHair on DelayFixed/DelayToPush/DelayToPull.with_delay/_pulled; all integers within 0..10^5 us (independent second encoding; inconclusive results are reported, not counted)",
                         per_condition_timeout=60, must_cover=["ran"]))
    return fams
