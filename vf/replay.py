"""Replay a counterexample on the real code with ordinary Python values.

``python -m vf.replay <replay.json>`` -- exit 1 if the recorded check fails again."""
import json
import os
import sys

ROOT = os.path.dirname(os.path.dirname(os.path.abspath(__file__)))
if ROOT not in sys.path:
    sys.path.insert(0, ROOT)

from vf import explore, symx  # noqa: E402


def main():
    with open(sys.argv[1]) as f:
        r = json.load(f)
    if r.get("kind") in ("crosshair", "custom"):
        mod, fn = r["ref"].split(":")
        res = getattr(__import__(mod, fromlist=["x"]), "replay")(r)
        print(json.dumps(res, indent=1, default=str))
        return 1 if res.get("reproduced") else 0
    c = symx.run_concrete(explore.load(r["ref"]), r["params"], r["inputs"], time_sort=r.get("time_sort", "int"))
    print("inputs:", json.dumps(r["inputs"]))
    print("status:", c["status"], c["error"] or "")
    for k, v in c["logs"]:
        print("  log", k, "=", v)
    print("failed checks:", c["failed"])
    rep = r["label"] in c["failed"]
    print("REPRODUCED" if rep else "not reproduced", r["label"])
    return 1 if rep else 0


if __name__ == "__main__":
    sys.exit(main())
