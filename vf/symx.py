"""symx -- proxy based dynamic symbolic execution of real Python code with z3.

A *harness* is a plain function ``h(ctx)``.  It asks ``ctx`` for symbolic inputs
(``ctx.dt``, ``ctx.td``, ``ctx.int``, ``ctx.real``, ``ctx.bool``, ``ctx.choice``),
builds real objects of the code under test with them and calls the real API.
Every Python-level branch on a symbolic comparison ends in ``SymBool.__bool__``
which asks the engine to pick a side; the other side is queued if the solver
says it is feasible under the path condition.  The harness is re-executed from
scratch for every queued decision prefix until the work list is empty.

The same harness runs in *concrete mode* (``ctx.concrete``): the inputs are then
ordinary ``datetime``/``timedelta``/``int``/``float`` objects taken from a z3
model.  This is used (a) to cross-validate the proxies against the real
semantics on every explored path and (b) to replay counterexamples against the
unmodified code before they are reported.
"""
from __future__ import annotations

import datetime as _dtm
import fractions
import sys as _sys
import math
import time as _time
import traceback
import zlib

import z3

if hasattr(_sys, "set_int_max_str_digits"):
    _sys.set_int_max_str_digits(0)  # z3 models may contain very long rationals

EPOCH = _dtm.datetime(1970, 1, 1)
US = _dtm.timedelta(microseconds=1)
DT_LO_US = 365 * 86400 * 10**6  # 1971-01-01
DT_HI_US = 2**53  # ~ year 2255
TD_MAX_US = 2**50  # ~ 35 years


class SymbolicLeak(BaseException):
    """A symbolic value reached an operation the proxies do not model."""


class PathTimeout(BaseException):
    """One execution of a harness exceeded the wall-clock budget for a single path."""


class PathAbort(BaseException):
    """Ends the current path (infeasible assumption / cut)."""

    def __init__(self, reason="abort"):
        super().__init__(reason)
        self.reason = reason


class HarnessError(Exception):
    pass


_ENGINE = None  # the active path context (one per process)


def _ctx():
    if _ENGINE is None:
        raise SymbolicLeak("symbolic value used outside of an active path")
    return _ENGINE


# --------------------------------------------------------------------------
# helpers for term conversion
# --------------------------------------------------------------------------
def dt_to_us(t):
    d = t - EPOCH
    return (d.days * 86400 + d.seconds) * 1000000 + d.microseconds


def td_to_us(d):
    return (d.days * 86400 + d.seconds) * 1000000 + d.microseconds


def us_to_dt(us):
    return EPOCH + _dtm.timedelta(microseconds=int(us))


def us_to_td(us):
    return _dtm.timedelta(microseconds=int(us))


def _is_real_mode():
    return _ENGINE is not None and _ENGINE.time_sort == "real"


def zint(x):
    """z3 Int term of an int-like value."""
    if isinstance(x, SymInt):
        return x.t
    if isinstance(x, bool):
        return z3.IntVal(int(x))
    if isinstance(x, int):
        return z3.IntVal(x)
    if hasattr(x, "__index__") and not isinstance(x, (SymReal, float)):
        return z3.IntVal(int(x))
    raise SymbolicLeak(f"not int-like: {type(x)}")


def zreal(x):
    """z3 Real term of a number-like value (floats are taken as exact rationals)."""
    if isinstance(x, SymReal):
        return x.t
    if isinstance(x, SymInt):
        return z3.ToReal(x.t)
    if isinstance(x, bool):
        return z3.RealVal(int(x))
    if isinstance(x, int):
        return z3.RealVal(x)
    if isinstance(x, float):
        if math.isnan(x) or math.isinf(x):
            raise SymbolicLeak("nan/inf in symbolic arithmetic")
        fr = fractions.Fraction(x)
        # floats stand for the reals they approximate: 0.1 is 1/10, not 3602879701896397/2**55
        nice = fr.limit_denominator(10**9)
        if abs(nice - fr) <= abs(fr) * 4e-16:
            fr = nice
        return z3.RealVal(f"{fr.numerator}/{fr.denominator}")
    if isinstance(x, fractions.Fraction):
        return z3.RealVal(f"{x.numerator}/{x.denominator}")
    tn = type(x).__module__
    if tn == "numpy":
        import numpy as np  # local: numpy scalars

        if isinstance(x, np.bool_):
            return z3.RealVal(int(x))
        if isinstance(x, np.integer):
            return z3.RealVal(int(x))
        if isinstance(x, np.floating):
            return zreal(float(x))
        if isinstance(x, np.ndarray) and x.ndim == 0:
            return zreal(x.item())
    return None


def zbool(x):
    if isinstance(x, SymBool):
        return x.t
    if isinstance(x, z3.BoolRef):
        return x
    if isinstance(x, (bool,)):
        return z3.BoolVal(bool(x))
    tn = type(x).__module__
    if tn == "numpy":
        return z3.BoolVal(bool(x))
    raise SymbolicLeak(f"not bool-like: {type(x)}")


def _time_term(us_term_or_val):
    """constant in the active time sort"""
    if _is_real_mode():
        return z3.RealVal(us_term_or_val)
    return z3.IntVal(us_term_or_val)


# --------------------------------------------------------------------------
# SymBool
# --------------------------------------------------------------------------
class SymBool:
    __slots__ = ("t", "robust")

    def __init__(self, t, robust=None):
        self.t = t
        # for equalities of real terms: (lhs, rhs); lets check() look for a counterexample whose difference is
        # large enough to survive float arithmetic in the concrete replay
        self.robust = robust

    def __bool__(self):
        return _ctx().branch(self.t)

    def __and__(self, o):
        return SymBool(z3.And(self.t, zbool(o)))

    __rand__ = __and__

    def __or__(self, o):
        return SymBool(z3.Or(self.t, zbool(o)))

    __ror__ = __or__

    def __invert__(self):
        return SymBool(z3.Not(self.t))

    def __eq__(self, o):
        return SymBool(self.t == zbool(o))

    def __ne__(self, o):
        return SymBool(self.t != zbool(o))

    def __hash__(self):
        raise SymbolicLeak("hash(SymBool)")

    def __repr__(self):
        return f"SymBool({self.t})"


# --------------------------------------------------------------------------
# SymInt
# --------------------------------------------------------------------------
class SymInt:
    __slots__ = ("t",)

    def __init__(self, t):
        self.t = t

    # arithmetic
    def __add__(self, o):
        if isinstance(o, (SymReal, float)):
            return SymReal(z3.ToReal(self.t) + zreal(o))
        return SymInt(self.t + zint(o))

    __radd__ = __add__

    def __sub__(self, o):
        if isinstance(o, (SymReal, float)):
            return SymReal(z3.ToReal(self.t) - zreal(o))
        return SymInt(self.t - zint(o))

    def __rsub__(self, o):
        if isinstance(o, (SymReal, float)):
            return SymReal(zreal(o) - z3.ToReal(self.t))
        return SymInt(zint(o) - self.t)

    def __mul__(self, o):
        if isinstance(o, (SymReal, float)):
            return SymReal(z3.ToReal(self.t) * zreal(o))
        if isinstance(o, _dtm.timedelta):
            return NotImplemented
        return SymInt(self.t * zint(o))

    __rmul__ = __mul__

    def __neg__(self):
        return SymInt(-self.t)

    def __pos__(self):
        return self

    def __floordiv__(self, o):
        if isinstance(o, int) and not isinstance(o, bool) and o > 0:
            return SymInt(self.t / z3.IntVal(o))  # z3 int div == floor for positive divisor
        raise SymbolicLeak("SymInt // non-constant or non-positive divisor")

    def __mod__(self, o):
        if isinstance(o, int) and not isinstance(o, bool) and o > 0:
            return SymInt(self.t % z3.IntVal(o))
        raise SymbolicLeak("SymInt % non-constant or non-positive divisor")

    def __truediv__(self, o):
        return SymReal(z3.ToReal(self.t) / zreal(o))

    def __rtruediv__(self, o):
        return SymReal(zreal(o) / z3.ToReal(self.t))

    # comparisons
    def _cmp(self, o, op):
        if isinstance(o, (SymReal, float)):
            return SymBool(op(z3.ToReal(self.t), zreal(o)))
        return SymBool(op(self.t, zint(o)))

    def __lt__(self, o):
        return self._cmp(o, lambda a, b: a < b)

    def __le__(self, o):
        return self._cmp(o, lambda a, b: a <= b)

    def __gt__(self, o):
        return self._cmp(o, lambda a, b: a > b)

    def __ge__(self, o):
        return self._cmp(o, lambda a, b: a >= b)

    def __eq__(self, o):
        if o is None:
            return False
        return self._cmp(o, lambda a, b: a == b)

    def __ne__(self, o):
        if o is None:
            return True
        return self._cmp(o, lambda a, b: a != b)

    def __bool__(self):
        return _ctx().branch(self.t != 0)

    def __hash__(self):
        raise SymbolicLeak("hash(SymInt)")

    def __index__(self):
        raise SymbolicLeak("SymInt used as concrete index")

    def __int__(self):
        raise SymbolicLeak("int(SymInt)")

    def __float__(self):
        raise SymbolicLeak("float(SymInt)")

    def __repr__(self):
        return f"SymInt({self.t})"

    __str__ = __repr__

    def __format__(self, spec):
        return "<symint>"


# --------------------------------------------------------------------------
# SymReal
# --------------------------------------------------------------------------
def _sym_isclose(a, b, rtol=1e-05, atol=1e-08, equal_nan=False):  # pylint: disable=unused-argument
    """numpy.isclose for scalar symbolic arguments: |a - b| <= atol + rtol * |b| (its documented definition)"""
    return abs(a - b) <= atol + rtol * abs(b)


class SymReal:
    __slots__ = ("t",)
    # make numpy defer to our reflected operators instead of broadcasting
    __array_priority__ = 1000

    def __init__(self, t):
        self.t = t

    def __array_function__(self, func, types, args, kwargs):
        # numpy functions called with a symbolic scalar as a direct argument: isclose by its definition,
        # everything else as numpy would do without the dispatch
        import numpy as _np
        if func is _np.isclose:
            return _sym_isclose(*args, **kwargs)
        impl = getattr(func, "_implementation", None)
        if impl is None:
            return NotImplemented
        return impl(*args, **kwargs)

    def _o(self, o):
        r = zreal(o)
        return r

    def __add__(self, o):
        r = zreal(o)
        if r is None:
            return NotImplemented
        return SymReal(self.t + r)

    __radd__ = __add__

    def __sub__(self, o):
        r = zreal(o)
        if r is None:
            return NotImplemented
        return SymReal(self.t - r)

    def __rsub__(self, o):
        r = zreal(o)
        if r is None:
            return NotImplemented
        return SymReal(r - self.t)

    def __mul__(self, o):
        r = zreal(o)
        if r is None:
            return NotImplemented
        return SymReal(self.t * r)

    __rmul__ = __mul__

    def __truediv__(self, o):
        r = zreal(o)
        if r is None:
            return NotImplemented
        return SymReal(self.t / r)

    def __rtruediv__(self, o):
        r = zreal(o)
        if r is None:
            return NotImplemented
        return SymReal(r / self.t)

    def __neg__(self):
        return SymReal(-self.t)

    def __pos__(self):
        return self

    def __abs__(self):
        return SymReal(z3.If(self.t >= 0, self.t, -self.t))

    def __pow__(self, o):
        if isinstance(o, int) and 0 <= o <= 4:
            r = z3.RealVal(1)
            for _ in range(o):
                r = r * self.t
            return SymReal(r)
        raise SymbolicLeak("SymReal ** non-small-int")

    def _cmp(self, o, op):
        r = zreal(o)
        if r is None:
            return NotImplemented
        return SymBool(op(self.t, r))

    def __lt__(self, o):
        return self._cmp(o, lambda a, b: a < b)

    def __le__(self, o):
        return self._cmp(o, lambda a, b: a <= b)

    def __gt__(self, o):
        return self._cmp(o, lambda a, b: a > b)

    def __ge__(self, o):
        return self._cmp(o, lambda a, b: a >= b)

    def __eq__(self, o):
        if o is None:
            return False
        return self._cmp(o, lambda a, b: a == b)

    def __ne__(self, o):
        if o is None:
            return True
        return self._cmp(o, lambda a, b: a != b)

    def __bool__(self):
        return _ctx().branch(self.t != 0)

    def __hash__(self):
        raise SymbolicLeak("hash(SymReal)")

    def __float__(self):
        raise SymbolicLeak("float(SymReal)")

    def __int__(self):
        raise SymbolicLeak("int(SymReal)")

    def __repr__(self):
        return f"SymReal({self.t})"

    __str__ = __repr__

    def __format__(self, spec):
        return "<symreal>"

    def __copy__(self):
        return self

    def __deepcopy__(self, memo):
        return self


# --------------------------------------------------------------------------
# SymTD / SymDT
# --------------------------------------------------------------------------
_POISON_TD = dict(days=999999999)


def _leakprop(name):
    def getter(self):
        raise SymbolicLeak(f"access to concrete field .{name} of a symbolic time value")

    return property(getter)


def _td_term(o):
    """µs term of a timedelta-like value or None."""
    if isinstance(o, SymTD):
        return o._us
    if isinstance(o, _dtm.timedelta):
        return _time_term(td_to_us(o))
    return None


def _dt_term(o):
    if isinstance(o, SymDT):
        return o._us
    if isinstance(o, _dtm.datetime):
        if o.tzinfo is not None:
            raise SymbolicLeak("tz-aware datetime mixed with symbolic time")
        return _time_term(dt_to_us(o))
    return None


def _num_term(o):
    """term for a scalar multiplier in the active time sort, plus whether it is integral"""
    if isinstance(o, SymInt):
        return o.t, True
    if isinstance(o, bool):
        return None, False
    if isinstance(o, int):
        return z3.IntVal(o), True
    return None, False


class SymTD(_dtm.timedelta):
    """timedelta whose length is the z3 term ``_us`` (microseconds)."""

    def __new__(cls, us_term):
        self = _dtm.timedelta.__new__(cls, **_POISON_TD)
        self._us = us_term
        return self

    days = _leakprop("days")
    seconds = _leakprop("seconds")
    microseconds = _leakprop("microseconds")

    @staticmethod
    def const(td):
        return SymTD(_time_term(td_to_us(td)))

    def total_seconds(self):
        t = self._us if _is_real_mode() else z3.ToReal(self._us)
        return SymReal(t / 1000000)

    def __add__(self, o):
        if isinstance(o, _dtm.datetime):
            return SymDT(_dt_term(o) + self._us)
        t = _td_term(o)
        if t is None:
            return NotImplemented
        return SymTD(self._us + t)

    __radd__ = __add__

    def __sub__(self, o):
        t = _td_term(o)
        if t is None:
            return NotImplemented
        return SymTD(self._us - t)

    def __rsub__(self, o):
        if isinstance(o, _dtm.datetime):
            return SymDT(_dt_term(o) - self._us)
        t = _td_term(o)
        if t is None:
            return NotImplemented
        return SymTD(t - self._us)

    def __neg__(self):
        return SymTD(-self._us)

    def __pos__(self):
        return self

    def __abs__(self):
        return SymTD(z3.If(self._us >= 0, self._us, -self._us))

    def __mul__(self, o):
        t, isint = _num_term(o)
        if t is not None and isint:
            if _is_real_mode():
                t = z3.ToReal(t)
            return SymTD(self._us * t)
        if _is_real_mode():
            r = zreal(o)
            if r is not None:
                return SymTD(self._us * r)
        raise SymbolicLeak(f"SymTD * {type(o).__name__} (rounding not modelled)")

    __rmul__ = __mul__

    def __truediv__(self, o):
        t = _td_term(o)
        if t is not None:
            if _is_real_mode():
                return SymReal(self._us / t)
            return SymReal(z3.ToReal(self._us) / z3.ToReal(t))
        if isinstance(o, int) and not isinstance(o, bool) and o > 0:
            if _is_real_mode():
                return SymTD(self._us / o)
            # Python: timedelta / int rounds the exact quotient half-to-even
            q = self._us / z3.IntVal(o)  # floor (o > 0)
            r = self._us % z3.IntVal(o)
            twice = 2 * r
            up = z3.Or(twice > o, z3.And(twice == o, q % 2 == 1))
            return SymTD(z3.If(up, q + 1, q))
        raise SymbolicLeak(f"SymTD / {type(o).__name__} not modelled")

    def __rtruediv__(self, o):
        t = _td_term(o)
        if t is None:
            return NotImplemented
        if _is_real_mode():
            return SymReal(t / self._us)
        return SymReal(z3.ToReal(t) / z3.ToReal(self._us))

    def __floordiv__(self, o):
        raise SymbolicLeak("SymTD // x not modelled")

    __rfloordiv__ = __floordiv__
    __mod__ = __floordiv__
    __rmod__ = __floordiv__
    __divmod__ = __floordiv__

    def _cmp(self, o, op):
        t = _td_term(o)
        if t is None:
            return NotImplemented
        return SymBool(op(self._us, t))

    def __lt__(self, o):
        return self._cmp(o, lambda a, b: a < b)

    def __le__(self, o):
        return self._cmp(o, lambda a, b: a <= b)

    def __gt__(self, o):
        return self._cmp(o, lambda a, b: a > b)

    def __ge__(self, o):
        return self._cmp(o, lambda a, b: a >= b)

    def __eq__(self, o):
        t = _td_term(o)
        if t is None:
            return False
        return SymBool(self._us == t)

    def __ne__(self, o):
        t = _td_term(o)
        if t is None:
            return True
        return SymBool(self._us != t)

    def __bool__(self):
        return _ctx().branch(self._us != 0)

    def __hash__(self):
        raise SymbolicLeak("hash(SymTD)")

    def __repr__(self):
        return "<symbolic timedelta>"

    __str__ = __repr__

    def __format__(self, spec):
        return "<symbolic timedelta>"

    def __copy__(self):
        return self

    def __deepcopy__(self, memo):
        return self

    def __reduce__(self):
        raise SymbolicLeak("pickling SymTD")

    __reduce_ex__ = lambda self, p: self.__reduce__()  # noqa: E731


class SymDT(_dtm.datetime):
    """datetime whose position is the z3 term ``_us`` (microseconds since 1970-01-01)."""

    def __new__(cls, us_term):
        self = _dtm.datetime.__new__(cls, 9999, 12, 31, 23, 59, 59, 999999)
        self._us = us_term
        return self

    for _n in ("year", "month", "day", "hour", "minute", "second", "microsecond"):
        locals()[_n] = _leakprop(_n)
    del _n

    @staticmethod
    def const(dt):
        return SymDT(_time_term(dt_to_us(dt)))

    def __add__(self, o):
        t = _td_term(o)
        if t is None:
            return NotImplemented
        return SymDT(self._us + t)

    __radd__ = __add__

    def __sub__(self, o):
        t = _dt_term(o) if isinstance(o, _dtm.datetime) else None
        if t is not None:
            return SymTD(self._us - t)
        t = _td_term(o)
        if t is None:
            return NotImplemented
        return SymDT(self._us - t)

    def __rsub__(self, o):
        if isinstance(o, _dtm.datetime):
            return SymTD(_dt_term(o) - self._us)
        return NotImplemented

    def _cmp(self, o, op):
        if not isinstance(o, _dtm.datetime):
            return NotImplemented
        return SymBool(op(self._us, _dt_term(o)))

    def __lt__(self, o):
        return self._cmp(o, lambda a, b: a < b)

    def __le__(self, o):
        return self._cmp(o, lambda a, b: a <= b)

    def __gt__(self, o):
        return self._cmp(o, lambda a, b: a > b)

    def __ge__(self, o):
        return self._cmp(o, lambda a, b: a >= b)

    def __eq__(self, o):
        if not isinstance(o, _dtm.datetime):
            return False
        return SymBool(self._us == _dt_term(o))

    def __ne__(self, o):
        if not isinstance(o, _dtm.datetime):
            return True
        return SymBool(self._us != _dt_term(o))

    def __hash__(self):
        raise SymbolicLeak("hash(SymDT)")

    def __repr__(self):
        return "<symbolic datetime>"

    __str__ = __repr__

    def __format__(self, spec):
        return "<symbolic datetime>"

    def isoformat(self, *a, **k):
        return "<symbolic datetime>"

    def _leak(self, *a, **k):
        raise SymbolicLeak("unmodelled datetime method on symbolic time")

    timestamp = date = time = timetz = replace = astimezone = utcoffset = _leak
    strftime = timetuple = utctimetuple = toordinal = weekday = isoweekday = _leak
    isocalendar = ctime = dst = tzname = _leak

    def __copy__(self):
        return self

    def __deepcopy__(self, memo):
        return self

    def __reduce__(self):
        raise SymbolicLeak("pickling SymDT")

    __reduce_ex__ = lambda self, p: self.__reduce__()  # noqa: E731


# --------------------------------------------------------------------------
# generic helpers usable by harness oracles in both modes
# --------------------------------------------------------------------------
def neg(x):
    """logical negation usable on SymBool and on plain bools"""
    if isinstance(x, SymBool):
        return ~x
    return not bool(x)


def is_sym(x):
    return isinstance(x, (SymBool, SymInt, SymReal, SymTD, SymDT))


def term_of(x):
    """z3 term for any proxy / concrete scalar (times in µs)."""
    if isinstance(x, SymBool):
        return x.t
    if isinstance(x, (SymInt, SymReal)):
        return x.t
    if isinstance(x, (SymTD, SymDT)):
        return x._us
    if isinstance(x, z3.ExprRef):
        return x
    if isinstance(x, _dtm.datetime):
        return _time_term(dt_to_us(x))
    if isinstance(x, _dtm.timedelta):
        return _time_term(td_to_us(x))
    if isinstance(x, bool):
        return z3.BoolVal(x)
    if isinstance(x, int):
        return z3.IntVal(x)
    r = zreal(x)
    if r is not None:
        return r
    raise SymbolicLeak(f"no term for {type(x)}")


def model_value(model, term):
    """python value of a term under a model (model completion on)."""
    v = model.eval(term, model_completion=True)
    if z3.is_int_value(v):
        return v.as_long()
    if z3.is_rational_value(v):
        return fractions.Fraction(v.numerator_as_long(), v.denominator_as_long())
    if z3.is_true(v):
        return True
    if z3.is_false(v):
        return False
    if z3.is_algebraic_value(v):
        a = v.approx(20)
        return fractions.Fraction(a.numerator_as_long(), a.denominator_as_long())
    # not fully evaluated (e.g. division by zero terms): simplify further
    v2 = z3.simplify(v)
    if z3.is_int_value(v2):
        return v2.as_long()
    if z3.is_rational_value(v2):
        return fractions.Fraction(v2.numerator_as_long(), v2.denominator_as_long())
    raise HarnessError(f"cannot evaluate {term} under model: {v}")


# --------------------------------------------------------------------------
# Path context
# --------------------------------------------------------------------------
class Violation:
    def __init__(self, label, inputs, detail, prefix):
        self.label = label
        self.inputs = inputs
        self.detail = detail
        self.prefix = prefix

    def as_dict(self):
        return {
            "label": self.label,
            "inputs": self.inputs,
            "detail": self.detail,
            "prefix": list(self.prefix),
        }


class Ctx:
    """One execution of a harness (symbolic or concrete)."""

    def __init__(self, params=None, prefix=(), concrete_inputs=None, time_sort="int",
                 query_timeout_ms=30000, max_decisions=4000, check_terms=True, isolate_checks=False):
        self.params = params or {}
        self.concrete = concrete_inputs is not None
        self.inputs_c = concrete_inputs or {}
        self.time_sort = time_sort
        self.prefix = list(prefix)
        self.decisions = []  # bools taken
        self.new_prefixes = []  # siblings found feasible
        self.sig = []  # crc of branch terms (divergence detection)
        self.max_decisions = max_decisions
        self.check_terms = check_terms
        self.decl = []  # (name, kind, term)
        self.logs = []  # (key, value)   value: proxy / concrete
        self.covered = set()
        self.violations = []
        self.failed_labels_concrete = []
        self.n_queries = 0
        self.solver_s = 0.0
        self.n_oblig = 0
        self.n_discharged = 0
        self.n_unknown = 0
        self.unknown_labels = []
        self.inconclusive_branches = 0
        self.model = None
        self.model_stale = True
        self.ended = None
        if not self.concrete:
            self.solver = z3.Solver()
            self.solver.set("timeout", query_timeout_ms)
        self.qtimeout = query_timeout_ms
        # obligations with nonlinear arithmetic are posed to a FRESH solver so that the incremental solver that
        # decides branch feasibility keeps working on the (linear) path condition only
        self.isolate_checks = isolate_checks

    # ---- solver plumbing -------------------------------------------------
    def _check(self, *extra):
        t0 = _time.perf_counter()
        r = self.solver.check(*extra)
        self.solver_s += _time.perf_counter() - t0
        self.n_queries += 1
        return r

    def _ensure_model(self):
        if self.model is None or self.model_stale:
            r = self._check()
            if r != z3.sat:
                if r == z3.unsat:
                    raise PathAbort("infeasible")
                raise PathAbort("unknown-pc")
            self.model = self.solver.model()
            self.model_stale = False
        return self.model

    def branch(self, cond):
        """Decide a symbolic condition; queue the other side if feasible."""
        if self.concrete:
            raise HarnessError("symbolic branch in concrete mode")
        cond = z3.simplify(cond)
        if z3.is_true(cond):
            return True
        if z3.is_false(cond):
            return False
        i = len(self.decisions)
        if i >= self.max_decisions:
            raise PathAbort("max-decisions")
        if i < len(self.prefix):
            b = self.prefix[i][0] if isinstance(self.prefix[i], tuple) else self.prefix[i]
            if self.check_terms and isinstance(self.prefix[i], tuple):
                crc = zlib.crc32(cond.sexpr().encode())
                if crc != self.prefix[i][1]:
                    raise HarnessError(
                        f"non-deterministic replay at decision {i}: {cond.sexpr()[:200]}"
                    )
            self.decisions.append(self.prefix[i])
            self.solver.add(cond if b else z3.Not(cond))
            self.model_stale = True
            return b
        m = self._ensure_model()
        v = m.eval(cond, model_completion=True)
        if z3.is_true(v):
            b = True
        elif z3.is_false(v):
            b = False
        else:
            # model does not decide (e.g. division by zero): ask the solver
            self.solver.push()
            self.solver.add(cond)
            r = self._check()
            self.solver.pop()
            b = r == z3.sat
            self.model_stale = True
        other = z3.Not(cond) if b else cond
        self.solver.push()
        self.solver.add(other)
        r = self._check()
        self.solver.pop()
        crc = zlib.crc32(cond.sexpr().encode()) if self.check_terms else 0
        if r == z3.sat:
            self.new_prefixes.append(list(self.decisions) + [((not b), crc)])
        elif r == z3.unknown:
            self.inconclusive_branches += 1
        self.decisions.append((b, crc))
        self.solver.add(cond if b else z3.Not(cond))
        return b

    # ---- inputs ----------------------------------------------------------
    def _declare(self, name, kind, term):
        self.decl.append((name, kind, term))

    def _tvar(self, name):
        return z3.Real(name) if self.time_sort == "real" else z3.Int(name)

    def dt(self, name):
        if self.concrete:
            return self._cval(name)
        v = self._tvar(name)
        self._declare(name, "dt", v)
        # stated assumption: times stay well inside datetime's range (1971 .. ~2255)
        self.solver.add(v >= DT_LO_US, v <= DT_HI_US)
        self.model_stale = True
        return SymDT(v)

    def td(self, name, lo_us=None, hi_us=None):
        if self.concrete:
            return self._cval(name)
        v = self._tvar(name)
        self._declare(name, "td", v)
        self.solver.add(v >= (-TD_MAX_US if lo_us is None else lo_us))
        self.solver.add(v <= (TD_MAX_US if hi_us is None else hi_us))
        self.model_stale = True
        return SymTD(v)

    def int(self, name, lo=None, hi=None):
        if self.concrete:
            return self._cval(name)
        v = z3.Int(name)
        self._declare(name, "int", v)
        if lo is not None:
            self.solver.add(v >= lo)
        if hi is not None:
            self.solver.add(v <= hi)
        self.model_stale = True
        return SymInt(v)

    def real(self, name, lo=None, hi=None):
        if self.concrete:
            return self._cval(name)
        v = z3.Real(name)
        self._declare(name, "real", v)
        if lo is not None:
            self.solver.add(v >= lo)
        if hi is not None:
            self.solver.add(v <= hi)
        self.model_stale = True
        return SymReal(v)

    def bool(self, name):
        if self.concrete:
            return self._cval(name)
        v = z3.Bool(name)
        self._declare(name, "bool", v)
        return SymBool(v)

    def choice(self, name, n):
        """A concrete int in range(n), chosen by forking."""
        if self.concrete:
            return self._cval(name)
        v = z3.Int(name)
        self._declare(name, "int", v)
        self.solver.add(v >= 0, v < n)
        self.model_stale = True
        for i in range(n - 1):
            if self.branch(v == i):
                return i
        return n - 1

    def flag(self, name):
        """A concrete bool chosen by forking."""
        if self.concrete:
            return self._cval(name)
        v = z3.Bool(name)
        self._declare(name, "bool", v)
        return self.branch(v)

    def _cval(self, name):
        if name not in self.inputs_c:
            raise HarnessError(f"concrete replay lacks input {name}")
        kind, val = self.inputs_c[name]
        if kind == "dt":
            if self.time_sort == "real":
                return EPOCH + _dtm.timedelta(microseconds=float(val))
            return us_to_dt(val)
        if kind == "td":
            if self.time_sort == "real":
                return _dtm.timedelta(microseconds=float(val))
            return us_to_td(val)
        if kind == "int":
            return int(val)
        if kind == "real":
            return float(val)
        if kind == "bool":
            return bool(val)
        raise HarnessError(kind)

    # ---- assumptions / obligations --------------------------------------
    def assume(self, cond):
        if self.concrete:
            if not bool(cond):
                raise PathAbort("assumption-false-in-concrete")
            return
        c = z3.simplify(zbool(cond))
        if z3.is_true(c):
            return
        self.solver.add(c)
        self.model_stale = True
        r = self._check()
        if r == z3.unsat:
            raise PathAbort("infeasible")
        if r == z3.unknown:
            raise PathAbort("unknown-pc")
        self.model = self.solver.model()
        self.model_stale = False

    def cut(self, reason):
        """End this path deliberately (bound reached); counted separately."""
        raise PathAbort("cut:" + reason)

    def cover(self, label):
        self.covered.add(label)

    def log(self, key, value):
        self.logs.append((key, value))

    def check(self, cond, label, detail=None):
        """Obligation: cond must hold for every input reaching this point."""
        self.n_oblig += 1
        if self.concrete:
            ok = bool(cond)
            if not ok:
                self.failed_labels_concrete.append(label)
            else:
                self.n_discharged += 1
            return ok
        if isinstance(cond, bool):
            c = z3.BoolVal(cond)
        else:
            c = z3.simplify(zbool(cond))
        if z3.is_true(c):
            self.n_discharged += 1
            return True
        if self.isolate_checks:
            s2 = z3.Solver()
            s2.set("timeout", self.qtimeout)
            s2.add(self.solver.assertions())
            s2.add(z3.Not(c))
            t0 = _time.perf_counter()
            r = s2.check()
            self.solver_s += _time.perf_counter() - t0
            self.n_queries += 1
            if r == z3.unsat:
                self.n_discharged += 1
                return True
            if r == z3.unknown:
                self.n_unknown += 1
                self.unknown_labels.append(label)
                return True
            m = self._robust_model(cond) or s2.model()
            self.violations.append(
                Violation(label, self._inputs_from(m), detail, self.decisions)
            )
            self.solver.add(c)
            self.model_stale = True
            rr = self._check()
            if rr != z3.sat:
                raise PathAbort("after-violation")
            self.model = self.solver.model()
            self.model_stale = False
            return False
        self.solver.push()
        self.solver.add(z3.Not(c))
        r = self._check()
        if r == z3.sat:
            m = self.solver.model()
            self.solver.pop()
            m = self._robust_model(cond) or m
            self.violations.append(
                Violation(label, self._inputs_from(m), detail, self.decisions)
            )
            # continue under the assumption that it holds (avoid cascades)
            self.solver.add(c)
            self.model_stale = True
            rr = self._check()
            if rr != z3.sat:
                raise PathAbort("after-violation")
            self.model = self.solver.model()
            self.model_stale = False
            return False
        self.solver.pop()
        if r == z3.unknown:
            self.n_unknown += 1
            self.unknown_labels.append(label)
            return True
        self.n_discharged += 1
        return True

    def _robust_model(self, cond, base_assertions=None):
        """A counterexample whose real-valued difference is visible in float arithmetic, if one exists."""
        rob = getattr(cond, "robust", None)
        if rob is None:
            return None
        a, b = rob
        a = z3.ToReal(a) if z3.is_int(a) else a
        b = z3.ToReal(b) if z3.is_int(b) else b
        s2 = z3.Solver()
        s2.set("timeout", min(self.qtimeout, 8000))
        s2.add(self.solver.assertions() if base_assertions is None else base_assertions)
        s2.add(z3.Or(a - b >= 1, b - a >= 1), a <= 10**6, a >= -10**6, b <= 10**6, b >= -10**6)
        for _n, kind, term in self.decl:
            if kind == "real":
                s2.add(term <= 10**4, term >= -10**4)
        t0 = _time.perf_counter()
        r = s2.check()
        self.solver_s += _time.perf_counter() - t0
        self.n_queries += 1
        return s2.model() if r == z3.sat else None

    def fail(self, label, detail=None):
        """Unconditional violation on this (feasible) path."""
        self.n_oblig += 1
        if self.concrete:
            self.failed_labels_concrete.append(label)
            return
        m = self._ensure_model()
        self.violations.append(Violation(label, self._inputs_from(m), detail, self.decisions))

    def eq(self, a, b, tol=1e-9):
        """Equality usable in both modes (tolerant for floats in concrete mode)."""
        if self.concrete:
            return _concrete_eq(a, b, tol)
        ta, tb = term_of(a), term_of(b)
        rob = (ta, tb) if (z3.is_real(ta) or z3.is_real(tb)) else None
        return SymBool(ta == tb, robust=rob)

    def _inputs_from(self, model):
        out = {}
        for name, kind, term in self.decl:
            v = model_value(model, term)
            if isinstance(v, fractions.Fraction):
                v = [v.numerator, v.denominator]
            out[name] = [kind, v]
        return out

    def final_inputs(self):
        """a model of the complete path condition, as concrete inputs"""
        self.model_stale = True
        m = self._ensure_model()
        return self._inputs_from(m), m


def _concrete_eq(a, b, tol):
    import numpy as np

    if isinstance(a, (_dtm.datetime, _dtm.timedelta)) or isinstance(b, (_dtm.datetime, _dtm.timedelta)):
        return a == b
    try:
        fa, fb = float(a), float(b)
    except (TypeError, ValueError):
        return bool(np.all(a == b))
    return abs(fa - fb) <= tol * max(1.0, abs(fa), abs(fb))


def decode_inputs(inputs):
    """JSON form -> form accepted by Ctx(concrete_inputs=...)"""
    out = {}
    for k, (kind, v) in inputs.items():
        if isinstance(v, list):
            v = fractions.Fraction(v[0], v[1])
        out[k] = (kind, v)
    return out


# --------------------------------------------------------------------------
# running paths
# --------------------------------------------------------------------------
class PathResult:
    __slots__ = (
        "status", "reason", "new_prefixes", "violations", "n_queries", "solver_s", "n_oblig",
        "n_discharged", "n_unknown", "unknown_labels", "covered", "inputs", "logs_eval", "n_decisions",
        "error", "inconclusive_branches", "prefix",
    )


def _eval_logs(ctx, model):
    out = []
    for key, val in ctx.logs:
        out.append((key, _eval_val(val, model)))
    return out


def _eval_val(val, model):
    if isinstance(val, (list, tuple)):
        return [_eval_val(v, model) for v in val]
    if is_sym(val):
        v = model_value(model, term_of(val))
        if isinstance(v, fractions.Fraction):
            return float(v)
        return v
    if isinstance(val, z3.ExprRef):
        v = model_value(model, val)
        if isinstance(v, fractions.Fraction):
            return float(v)
        return v
    if isinstance(val, _dtm.datetime):
        return dt_to_us(val)
    if isinstance(val, _dtm.timedelta):
        return td_to_us(val)
    if isinstance(val, (str, int, bool)) or val is None:
        return val
    if isinstance(val, float):
        return val
    try:
        return float(val)
    except Exception:  # pylint: disable=broad-except
        return repr(val)


def run_path(harness, params, prefix, **ctx_kw):
    """Run one symbolic path."""
    global _ENGINE
    ctx = Ctx(params=params, prefix=prefix, **ctx_kw)
    res = PathResult()
    res.error = None
    res.inputs = None
    res.logs_eval = None
    res.prefix = prefix
    old = _ENGINE
    _ENGINE = ctx
    try:
        try:
            harness(ctx)
            res.status = "done"
            res.reason = None
        except PathAbort as e:
            res.status = "abort"
            res.reason = e.reason
        except SymbolicLeak as e:
            res.status = "error"
            res.reason = "leak"
            res.error = "SymbolicLeak: " + str(e) + "\n" + traceback.format_exc(limit=12)
        except HarnessError as e:
            res.status = "error"
            res.reason = "harness"
            res.error = "HarnessError: " + str(e) + "\n" + traceback.format_exc(limit=12)
        except Exception as e:  # pylint: disable=broad-except
            res.status = "error"
            res.reason = "exception"
            res.error = f"{type(e).__name__}: {e}\n" + traceback.format_exc(limit=14)
        if len(ctx.decisions) < len(ctx.prefix) and res.status == "done":
            res.status = "error"
            res.reason = "harness"
            res.error = "non-deterministic replay: path ended before its prefix was consumed"
        if res.status == "done":
            try:
                res.inputs, m = ctx.final_inputs()
                res.logs_eval = _eval_logs(ctx, m)
            except PathAbort as e:
                res.status = "abort"
                res.reason = e.reason
    finally:
        _ENGINE = old
    res.new_prefixes = ctx.new_prefixes
    res.violations = [v.as_dict() for v in ctx.violations]
    res.n_queries = ctx.n_queries
    res.solver_s = ctx.solver_s
    res.n_oblig = ctx.n_oblig
    res.n_discharged = ctx.n_discharged
    res.n_unknown = ctx.n_unknown
    res.unknown_labels = ctx.unknown_labels
    res.covered = ctx.covered
    res.n_decisions = len(ctx.decisions)
    res.inconclusive_branches = ctx.inconclusive_branches
    return res


def run_concrete(harness, params, inputs, time_sort="int"):
    """Run the harness on the real code with ordinary Python values."""
    global _ENGINE
    ctx = Ctx(params=params, concrete_inputs=decode_inputs(inputs), time_sort=time_sort)
    old = _ENGINE
    _ENGINE = None
    status, err = "done", None
    try:
        try:
            harness(ctx)
        except PathAbort as e:
            status = "abort:" + e.reason
        except Exception as e:  # pylint: disable=broad-except
            status = "error"
            err = f"{type(e).__name__}: {e}\n" + traceback.format_exc(limit=14)
    finally:
        _ENGINE = old
    logs = [(k, _eval_val(v, None)) for k, v in ctx.logs]
    return {
        "status": status,
        "error": err,
        "failed": ctx.failed_labels_concrete,
        "logs": logs,
        "covered": ctx.covered,
    }
