"""Catalogue of coupling topologies used by the scheduler checks."""


def T(comps, links, **kw):
    cs = []
    for c in comps:
        if isinstance(c, str):
            if c.startswith("P"):
                cs.append({"name": c, "kind": "pull"})
            else:
                cs.append({"name": c})
        else:
            cs.append(c)
    ls = []
    for l in links:
        src, dst = l[0], l[1]
        d = {"src": src, "dst": dst, "ada": list(l[2]) if len(l) > 2 else []}
        if len(l) > 3:
            d.update(l[3])
        if "tap" in d:
            # a tapped link branches off behind adapter d["tap"][1] of link d["tap"][0] (same source output)
            d["out"] = ls[d["tap"][0]].get("out", f"o{d['tap'][0]}")
        ls.append(d)
    t = {"comps": cs, "links": ls}
    t.update(kw)
    return t


def NP(name, **kw):
    """time component without initial pull"""
    d = {"name": name, "init_pull": False}
    d.update(kw)
    return d


def V(name, **kw):
    """time component with a 2-cycle of steps"""
    d = {"name": name, "nsteps": 2}
    d.update(kw)
    return d


DAGS = {
    "ab": T(["A", "B"], [("A", "B")]),
    "ba_listed": T(["A", "B"], [("A", "B")], order=[1, 0]),
    "ab_scale_linear": T(["A", "B"], [("A", "B", ["scale", "linear"])]),
    "ab_next": T(["A", "B"], [("A", "B", ["next"])]),
    "ab_avg": T(["A", "B"], [("A", "B", ["avg"])]),
    "ab_dfix": T(["A", "B"], [("A", "B", ["dfix"])]),
    "ab_dpull": T(["A", "B"], [("A", "B", ["dpull2"])]),
    "ab_dpush": T(["A", "B"], [("A", "B", ["dpush"])]),
    "ab_linear_dfix": T(["A", "B"], [("A", "B", ["linear", "dfix"])]),
    "ab_next_scale_dfix": T(["A", "B"], [("A", "B", ["next", "scale", "dfix"])]),
    "ab_vary": T([V("A"), "B"], [("A", "B")]),
    "a_p_b": T(["A", "P", "B"], [("A", "P", ["linear"]), ("P", "B", ["scale"])]),
    "a_p_b_rev": T(["A", "P", "B"], [("A", "P"), ("P", "B")], order=[2, 1, 0]),
    "a_p_q_b": T(["A", "P", "PQ", "B"], [("A", "P"), ("P", "PQ", ["scale"]), ("PQ", "B")]),
    "a_p_dfix_b": T(["A", "P", "B"], [("A", "P", ["dfix"]), ("P", "B", ["dfix"])]),
    "ab_p_c": T(["A", "B", "P", "C"], [("A", "P"), ("B", "P", ["scale"]), ("P", "C")]),
    "a_p_bc": T(["A", "P", "B", "C"], [("A", "P"), ("P", "B", [], {"out": "o"}), ("P", "C", ["scale"], {"out": "o"})]),
    "abc": T(["A", "B", "C"], [("A", "B"), ("B", "C")]),
    "cba_listed": T(["A", "B", "C"], [("A", "B"), ("B", "C")], order=[2, 1, 0]),
    "fan_in": T(["A", "B", "C"], [("A", "C"), ("B", "C", ["scale"])]),
    "fan_out": T(["A", "B", "C"], [("A", "B", [], {"out": "o"}), ("A", "C", [], {"out": "o"})]),
    "two_inputs_delay_first": T(["A", "B", "C"], [("A", "C", ["dfix"]), ("B", "C")]),
}

# cycles whose combined delay is constrained to be >= sum of the largest steps
RINGS_OK = {
    "ring2_dfix": T([NP("A"), "B"], [("A", "B"), ("B", "A", ["dfix"])]),
    "ring2_dfix_listed_ba": T([NP("A"), "B"], [("A", "B"), ("B", "A", ["dfix"])], order=[1, 0]),
    "ring2_dfix_dfix": T([NP("A"), "B"], [("A", "B"), ("B", "A", ["dfix", "dfix"])]),
    "ring2_dfix_scale_dfix": T([NP("A"), "B"], [("A", "B"), ("B", "A", ["dfix", "scale", "dfix"])]),
    "ring2_split_links": T([NP("A"), "B"], [("A", "B", ["dfix"]), ("B", "A", ["dfix"])]),
    "ring2_three": T([NP("A"), "B"], [("A", "B", ["dfix"]), ("B", "A", ["dfix", "dfix"])]),
    "ring2_vary": T([NP("A", nsteps=2), "B"], [("A", "B"), ("B", "A", ["dfix"])]),
    "ring3_dfix": T([NP("A"), "B", "C"], [("A", "B"), ("B", "C"), ("C", "A", ["dfix"])]),
    "ring3_split": T([NP("A"), "B", "C"], [("A", "B", ["dfix"]), ("B", "C"), ("C", "A", ["dfix"])]),
    "ring2_pull": T([NP("A"), "P", "B"], [("A", "P"), ("P", "B"), ("B", "A", ["dfix"])]),
    # delay-resolved ring with an undelayed tail feeding A; A declares the delayed input first
    "ring2_tail_in": T([NP("A"), "B", "C"], [("B", "A", ["dfix"]), ("C", "A"), ("A", "B")]),
}

BIG = {
    "diamond": T(["A", "B", "C", "D"], [("A", "B"), ("A", "C", ["scale"]), ("B", "D"), ("C", "D", ["linear"])]),
    "chain4": T(["A", "B", "C", "D"], [("A", "B"), ("B", "C", ["dfix"]), ("C", "D")]),
    "chain5_pull": T(["A", "P", "B", "PQ", "C"], [("A", "P"), ("P", "B", ["dfix"]), ("B", "PQ"), ("PQ", "C", ["scale"])]),
    "two_rings": T([NP("A"), "B", NP("C"), "D"],
                   [("A", "B"), ("B", "A", ["dfix"]), ("C", "D"), ("D", "C", ["dfix"]), ("B", "C")]),
}
BIG_RINGS = {
    "ring4_dfix": T([NP("A"), "B", "C", "D"], [("A", "B"), ("B", "C"), ("C", "D"), ("D", "A", ["dfix"])]),
    "ring4_split": T([NP("A"), "B", "C", "D"], [("A", "B", ["dfix"]), ("B", "C"), ("C", "D", ["dfix"]), ("D", "A")]),
    "ring5_dfix": T([NP("A"), "B", "C", "D", "E"],
                    [("A", "B"), ("B", "C"), ("C", "D"), ("D", "E"), ("E", "A", ["dfix", "dfix"])]),
    "ring3_chord_ok": T([NP("A"), "B", "C"], [("A", "B"), ("B", "C"), ("C", "A", ["dfix"]), ("A", "C")]),
}

RINGS_PUSH = {
    "ring2_dpush": T([NP("A"), "B"], [("A", "B"), ("B", "A", ["dpush"])]),
}

# unresolved cycles
RINGS_BAD = {
    "ring2": T([NP("A"), "B"], [("A", "B"), ("B", "A")]),
    "ring2_scale": T([NP("A"), "B"], [("A", "B", ["scale"]), ("B", "A", ["scale"])]),
    "ring2_listed_ba": T([NP("A"), "B"], [("A", "B"), ("B", "A")], order=[1, 0]),
    "ring3": T([NP("A"), "B", "C"], [("A", "B"), ("B", "C"), ("C", "A")]),
    "ring3_chord": T([NP("A"), "B", "C"], [("A", "B"), ("B", "C"), ("C", "A"), ("A", "C")]),
    "ring2_tail": T([NP("A"), "B", "C"], [("A", "B"), ("B", "A"), ("B", "C")]),
    "ring2_pull": T([NP("A"), "P", "B"], [("A", "P"), ("P", "B"), ("B", "A")]),
    # undelayed 3-ring plus a delayed chord A -> C; C declares the chord input first
    "ring3_delayed_chord": T([NP("A"), "B", "C"],
                             [("A", "C", ["dfix"]), ("A", "B"), ("B", "C"), ("C", "A")]),
    "ring4": T([NP("A"), "B", "C", "D"], [("A", "B"), ("B", "C"), ("C", "D"), ("D", "A")]),
    "ring5": T([NP("A"), "B", "C", "D", "E"],
               [("A", "B"), ("B", "C"), ("C", "D"), ("D", "E"), ("E", "A")]),
    "all_initial_pull": T(["A", "B"], [("A", "B"), ("B", "A")]),
}


# staged initial-data handshake (acyclic): M.state -> S ; S.flux -> M (delayed) ; M.budget -> S
HANDSHAKE = T(
    [{"name": "M", "out_deps": {"o0": [], "o2": ["i1"]}},
     {"name": "S", "out_deps": {"o1": ["i0"]}}],
    [("M", "S"), ("S", "M", ["dfix"]), ("M", "S")])
# producers whose initial data is generated (statefully) whenever connector.data_required says so
REQUIRED_IDIOM = {
    "ab_required": T([{"name": "A", "required_idiom": True}, "B"], [("A", "B")]),
    "fan_out_required": T([{"name": "A", "required_idiom": True}, "B", "C"],
                          [("A", "B", [], {"out": "o"}), ("A", "C", ["scale"], {"out": "o"})]),
    "abc_required": T(["A", {"name": "B", "required_idiom": True}, "C"], [("A", "B"), ("B", "C")]),
}
# one output, two consumers: one pulls at connect, the other neither pulls at connect nor reads undelayed (its first
# request can lie before its own start)
FAN_OUT_LATE_FIRST_PULL = T(["A", "B", NP("C")], [("A", "B", [], {"out": "o"}), ("A", "C", ["dfix"], {"out": "o"})])
DOUBLE_LINK = T(["A", "B"], [("A", "B"), ("A", "B", ["scale"])])

# delay adapter on the SOURCE side of a push-based time adapter (known finding, DESIGN.md section 9)
DELAY_BEFORE_PUSH = {
    "ab_dfix_linear": T(["A", "B"], [("A", "B", ["dfix", "linear"])]),
    "ab_dpull_next": T(["A", "B"], [("A", "B", ["dpull1", "next"])]),
}

# a component that declares itself FINISHED after 1 / 2 updates next to an independent pair
FINISHING = {
    "finisher_alone": T([{"name": "F", "finish_after": 1}, "A", "B"], [("A", "B")]),
    "finisher_feeds_dpush": T([{"name": "F", "finish_after": 2}, "B"], [("F", "B", ["dpush"])]),
}

# branching behind adapters ("tap": [parent link, adapter position])
TAPS = {
    # gen.Out >> a1 >> B ; a1 >> a2 >> a3 >> C   (consumer of the short branch listed first)
    "tap_long_branch": T(["A", "B", "C"], [("A", "B", ["scale"]), ("A", "C", ["scale", "scale"], {"tap": [0, 0]})],
                         order=[1, 0, 2]),
    # A.Out >> Scale >> {B, C}  and  A.Out >> LinearTime >> D
    "tap_scale_and_linear": T(["A", "B", "C", "D"],
                              [("A", "B", ["scale"], {"out": "o"}), ("A", "C", [], {"tap": [0, 0]}),
                               ("A", "D", ["linear"], {"out": "o"})]),
    # two consumers with different clocks behind ONE DelayFixed
    "tap_shared_dfix": T(["A", "B", "C"], [("A", "B", ["dfix"]), ("A", "C", [], {"tap": [0, 0]})]),
    "tap_shared_scale": T(["A", "B", "C"], [("A", "B", ["scale"]), ("A", "C", [], {"tap": [0, 0]})], order=[1, 0, 2]),
}
# upstream chain into a pull-based component, consumer listed first
DAGS["a0_a_p_b_rev"] = T(["A0", "A", "P", "B"], [("A0", "A"), ("A", "P"), ("P", "B")], order=[3, 2, 1, 0])
DAGS["a0_a_p_b"] = T(["A0", "A", "P", "B"], [("A0", "A"), ("A", "P"), ("P", "B")])
# one consumer reading two pull-based components in parallel
DAGS["two_pulls_parallel"] = T(["A", "B", "P", "PQ", "C"], [("A", "P"), ("B", "PQ"), ("P", "C"), ("PQ", "C")])

# consumer dragged ahead by ITS consumer while reading its own source through a delay-to-pull adapter
DAGS["a_dpull_b_c"] = T(["A", "B", "C"], [("A", "B", ["dpull1"]), ("B", "C")], order=[2, 1, 0])
# pull-based component whose FIRST input is delayed and whose second is read directly; consumer listed first
DAGS["ab_dfix_first_p_c"] = T(["A", "B", "P", "C"], [("A", "P", ["dfix"]), ("B", "P"), ("P", "C")],
                              order=[3, 2, 0, 1])
# one consumer reading the SAME output of a pull-based component through a delayed and an undelayed link (delayed
# input first; delay <= steps so that the requests reaching the shared source never go backwards)
DAGS["a_p_two_links_dfix_b"] = T(["A", "P", "B"], [("A", "P"), ("P", "B", ["dfix"], {"out": "o"}),
                                                   ("P", "B", [], {"out": "o"})], delays_le_steps=True, offsets=False, order=[2, 1, 0])
# acyclic couplings in which a pull-based component is reached twice in one scheduling pass
PULL_DIAMONDS = {
    # one consumer reading two outputs of one pull-based component
    "a_p_two_outputs_c": T(["A", "P", "C"], [("A", "P"), ("P", "C", [], {"out": "o1"}), ("P", "C", [], {"out": "o2"})]),
    # diamond of pull-based components: A >> P >> {PQ, PR} >> C
    "a_p_diamond_c": T(["A", "P", "PQ", "PR", "C"], [("A", "P"), ("P", "PQ"), ("P", "PR"), ("PQ", "C"), ("PR", "C")]),
}
# adaptive stepping: C's step length follows the update count of its controller K (which it also reads)
ADAPTIVE = T(["A", "K", {"name": "C", "nsteps": 2, "step_by": "K"}], [("A", "C"), ("K", "C")])
# two links with their own delay-to-pull adapter into one consumer (the adapters' pull histories are per link)
DAGS["two_dpull_inputs"] = T(["A", "B", "C"], [("A", "C", ["dpull1"]), ("B", "C", ["dpull1"])], order=[2, 0, 1])
# two rings through ONE shared delay adapter behind A's output: A >> dfix >> {B, dfix >> C}; B >> A; C >> A
RINGS_OK["ring_chord_shared_dfix"] = T([NP("A", off0=True), {"name": "B", "off0": True}, "C"],
                                       [("A", "B", ["dfix"]), ("A", "C", ["dfix"], {"tap": [0, 0]}), ("B", "A"), ("C", "A")],
                                       covers=[([0], ["A", "B"]), ([0, 1], ["A", "C"])])
# rings resolved by a delay-to-pull adapter (delay = n steps of the pulling component + extra)
RINGS_OK["ring2_dpull3"] = T([NP("A"), "B"], [("A", "B"), ("B", "A", ["dpull3"])])
RINGS_OK["ring2_dpull2_pulls_at_connect"] = T(["A", NP("B")], [("A", "B"), ("B", "A", ["dpull2"])])
# ring through a pull-based component with the (sufficient) delay directly downstream of it
RINGS_OK["ring2_pull_delay_after"] = T([NP("A"), "P", "B"], [("A", "P"), ("P", "B", ["dfix"]), ("B", "A")])
