"""E2: CrossHair cross-checks of leaf functions (independent encoding of datetime arithmetic).

A family gives a module source (``src``) whose functions carry PEP316 contracts with
``post: __return__`` (the function itself computes 'real code agrees with the oracle').  Each
function is checked by ``crosshair check --report_all --per_condition_timeout N`` in its own
process.  'Confirmed over all paths' is the only pass; a counterexample is replayed by calling
the function with the reported arguments in plain Python; 'Not confirmed' / 'Unable to meet
precondition' are inconclusive and are reported as such (they never count as discharged and, being
a cross-check of the E1 verdict, do not fail the run).
"""
from __future__ import annotations

import ast
import importlib.util
import os
import re
import subprocess
import sys
import time

ROOT = os.path.dirname(os.path.dirname(os.path.abspath(__file__)))


def _load(path):
    spec = importlib.util.spec_from_file_location("ch_generated_" + os.path.basename(path)[:-3], path)
    mod = importlib.util.module_from_spec(spec)
    spec.loader.exec_module(mod)
    return mod


def run_family(fam, prop, tier):
    t0 = time.time()
    bdir = os.path.join(ROOT, "build")
    os.makedirs(bdir, exist_ok=True)
    path = os.path.join(bdir, f"ch_{prop}_{fam['name'].replace(':', '_')}.py")
    with open(path, "w") as f:
        f.write(fam["src"])
    tree = ast.parse(fam["src"])
    funcs = [(n.name, n.lineno + 1) for n in tree.body if isinstance(n, ast.FunctionDef) and n.name.startswith("chk_")]
    timeout = fam.get("per_condition_timeout", 40)
    exe = os.path.join(ROOT, ".venv", "bin", "crosshair")
    procs = []
    for name, line in funcs:
        cmd = [exe, "check", "--report_all", "--per_condition_timeout", str(timeout), f"{path}:{line}"]
        procs.append((name, subprocess.Popen(cmd, stdout=subprocess.PIPE, stderr=subprocess.STDOUT, text=True,
                                             env=dict(os.environ, PYTHONPATH=f"{ROOT}:/repo/src"))))
    confirmed, inconclusive, violations, problems, samples = 0, [], [], [], []
    mod = None
    for name, pr in procs:
        try:
            out, _ = pr.communicate(timeout=timeout * 4 + 60)
        except subprocess.TimeoutExpired:
            pr.kill()
            out = "timeout"
        verdict = out.strip().splitlines()[-1] if out.strip() else "no output"
        samples.append({"function": name, "verdict": verdict[-160:]})
        if "Confirmed over all paths" in out:
            confirmed += 1
            continue
        m = re.search(r"error: false when calling (\w+)\((.*?)\)(?: \(which returns .*\))?\s*$", out, re.M)
        if m:
            args = m.group(2)
            if mod is None:
                mod = _load(path)
            try:
                res = eval(f"mod.{m.group(1)}({args})", {"mod": mod})  # pylint: disable=eval-used
            except Exception as e:  # pylint: disable=broad-except
                res = f"exception {type(e).__name__}: {e}"
            violations.append({"label": "crosshair:" + name, "inputs": {"call": ["str", f"{name}({args})"]},
                               "detail": {"sig": name, "replay_result": str(res)},
                               "replayed": res is False, "extra": {"file": path, "call": f"{name}({args})"}})
            continue
        if "error:" in out:
            problems.append(f"crosshair reported an error for {name}: {verdict}")
        inconclusive.append(name)
    n = len(funcs)
    return {
        "paths": n, "nontrivial": confirmed, "done": confirmed, "aborts": {}, "cuts": 0,
        "oblig": n, "discharged": confirmed, "unknown": len(inconclusive), "unknown_labels": {k: 1 for k in inconclusive},
        "queries": 0, "solver_s": 0.0, "validated": 0, "covered": ["ran"], "complete": not problems,
        "wall_s": round(time.time() - t0, 2), "violations_raw": violations, "samples": samples, "problems": problems,
        "functions": [f"crosshair contract {name}" for name, _ in funcs],
        "engine": "crosshair-tool 0.0.110 (per_condition_timeout %ds); inconclusive: %s" % (timeout, inconclusive),
    }


def replay(r):
    mod = _load(r["extra"]["file"]) if os.path.exists(r["extra"]["file"]) else None
    if mod is None:
        return {"reproduced": False, "note": "generated contract file missing; re-run the check first"}
    res = eval("mod." + r["extra"]["call"], {"mod": mod})  # pylint: disable=eval-used
    return {"call": r["extra"]["call"], "returns": res, "reproduced": res is False}
