"""Sources of the CrossHair (E2) contract modules."""

HEADER = '''
import sys
sys.path.insert(0, "/repo/src")
import logging, warnings
warnings.filterwarnings("ignore"); logging.disable(logging.CRITICAL)
from datetime import datetime, timedelta
import finam as fm
from finam.adapters.time import NextTime, PreviousTime

BASE = datetime(2000, 1, 1)


def T(us):
    return BASE + timedelta(microseconds=us)
'''

DELAYS = HEADER + '''

def chk_delay_fixed(t: int, d: int, start: int) -> bool:
    """
    pre: 0 <= d <= 10**5 and 0 <= start <= 10**5 and 0 <= t <= 10**5
    post: __return__
    """
    a = object.__new__(fm.adapters.DelayFixed)
    a.delay = timedelta(microseconds=d)
    a.initial_time = T(start)
    return a.with_delay(T(t)) == T(max(t - d, start))


def chk_delay_to_push(t: int, push: int, start: int, pushed: bool) -> bool:
    """
    pre: 0 <= start <= push <= 10**5 and 0 <= t <= 10**5
    post: __return__
    """
    a = object.__new__(fm.adapters.DelayToPush)
    a.initial_time = T(start)
    a.push_time = T(push) if pushed else None
    want = T(min(t, push)) if pushed else T(start)
    return a.with_delay(T(t)) == want


def chk_delay_to_pull_2(r1: int, r2: int, r3: int, extra: int, start: int) -> bool:
    """
    pre: 0 <= start <= r1 <= r2 <= r3 <= 10**5 and 0 <= extra <= 10**5
    post: __return__
    """
    a = object.__new__(fm.adapters.DelayToPull)
    a.steps = 2
    a.additional_delay = timedelta(microseconds=extra)
    a._pulls = []
    a.initial_time = T(start)
    got = []
    for r in (r1, r2, r3):
        got.append(a.with_delay(T(r)))
        a._pulled(T(r))
    want = [T(start), T(start), T(max(r1 - extra, start))]
    return got == want


def chk_delay_to_pull_1(r1: int, r2: int, r3: int, extra: int, start: int) -> bool:
    """
    pre: 0 <= start <= r1 <= r2 <= r3 <= 10**5 and 0 <= extra <= 10**5
    post: __return__
    """
    a = object.__new__(fm.adapters.DelayToPull)
    a.steps = 1
    a.additional_delay = timedelta(microseconds=extra)
    a._pulls = []
    a.initial_time = T(start)
    got = []
    for r in (r1, r2, r3):
        got.append(a.with_delay(T(r)))
        a._pulled(T(r))
    want = [T(start), T(max(r1 - extra, start)), T(max(r2 - extra, start))]
    return got == want
'''

NEAREST = HEADER + '''

def _out(times):
    out = object.__new__(fm.Output)
    out.data = [(T(t), i) for i, t in enumerate(times)]
    out._mem_limit = None
    return out


def chk_nearest3(g0: int, g1: int, r: int) -> bool:
    """
    pre: 1 <= g0 <= 10**6 and 1 <= g1 <= 10**6 and 0 <= r <= g0 + g1
    post: __return__
    """
    times = [0, g0, g0 + g1]
    i = _out(times)._interpolate(T(r))
    return all(abs(r - times[i]) <= abs(r - x) for x in times)


def chk_nearest4(g0: int, g1: int, g2: int, r: int) -> bool:
    """
    pre: 1 <= g0 <= 100 and 1 <= g1 <= 100 and 1 <= g2 <= 100 and 0 <= r <= g0 + g1 + g2
    post: __return__
    """
    times = [0, g0, g0 + g1, g0 + g1 + g2]
    i = _out(times)._interpolate(T(r))
    return all(abs(r - times[i]) <= abs(r - x) for x in times)


def chk_out_of_range(g0: int, r: int) -> bool:
    """
    pre: 1 <= g0 <= 10**6 and -10**6 <= r <= 2 * 10**6 and (r < 0 or r > g0)
    post: __return__
    """
    try:
        _out([0, g0])._interpolate(T(r))
    except fm.errors.FinamTimeError:
        return True
    return False
'''

SELECT = HEADER + '''

def _ada(cls, times):
    a = object.__new__(cls)
    a.data = [(T(t), i) for i, t in enumerate(times)]
    a._mem_limit = None
    return a


def chk_next3(g0: int, g1: int, r: int) -> bool:
    """
    pre: 1 <= g0 <= 10**6 and 1 <= g1 <= 10**6 and 0 <= r <= g0 + g1
    post: __return__
    """
    times = [0, g0, g0 + g1]
    i = _ada(NextTime, times)._interpolate(T(r))
    return times[i] >= r and all(x < r for x in times[:i])


def chk_prev3(g0: int, g1: int, r: int) -> bool:
    """
    pre: 1 <= g0 <= 10**6 and 1 <= g1 <= 10**6 and 0 <= r <= g0 + g1
    post: __return__
    """
    times = [0, g0, g0 + g1]
    i = _ada(PreviousTime, times)._interpolate(T(r))
    return times[i] <= r and all(x > r for x in times[i + 1:])
'''
