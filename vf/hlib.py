"""Shared harness material: quiet finam, harness components, monitors."""
from __future__ import annotations

import contextlib
import enum
import logging
import sys
import warnings
from datetime import datetime, timedelta

import os as _os

# the tree under test: /repo (registered checks); VERIF_REPO only redirects scratch experiments
REPO_SRC = _os.environ.get("VERIF_REPO", "/repo") + "/src"
if REPO_SRC not in sys.path:
    sys.path.insert(0, REPO_SRC)

warnings.filterwarnings("ignore")
logging.disable(logging.CRITICAL)

import numpy as np  # noqa: E402

import finam as fm  # noqa: E402
from finam.data.tools import units as _units  # noqa: E402

from . import symx  # noqa: E402

T0 = datetime(2000, 1, 1)
DAY = timedelta(days=1)


_CLASS_STATE = None


def _class_level_containers():
    """(class, attribute) pairs of finam classes holding a mutable container at class level."""
    found = []
    for mname, mod in list(sys.modules.items()):
        if not (mname == "finam" or mname.startswith("finam.")) or mod is None:
            continue
        for obj in list(vars(mod).values()):
            if isinstance(obj, type) and getattr(obj, "__module__", "") == mname \
                    and not issubclass(obj, enum.Enum):
                for an, av in list(vars(obj).items()):
                    if not an.startswith("__") and isinstance(av, (list, dict, set)):
                        found.append((obj, an))
    return found


def reset_finam_state():
    """Neutralise process-global state that would make re-execution non-deterministic.

    Every execution of a harness must start from the state of a fresh interpreter: the units cache is
    cleared and mutable containers bound at class level in finam (state shared by all instances of a
    class) are put back to their import-time content, so what one execution leaves there cannot reach
    the next one -- sharing *within* an execution stays visible to the oracles."""
    global _CLASS_STATE
    _units.clear_units_cache()
    if _CLASS_STATE is None:
        import copy
        _CLASS_STATE = [(c, a, copy.deepcopy(vars(c)[a])) for c, a in _class_level_containers()]
    else:
        import copy
        for c, a, snap in _CLASS_STATE:
            setattr(c, a, copy.deepcopy(snap))


@contextlib.contextmanager
def patched(obj, name, new):
    old = obj.__dict__.get(name, None) if isinstance(obj, type) else getattr(obj, name)
    had = name in obj.__dict__ if isinstance(obj, type) else True
    setattr(obj, name, new)
    try:
        yield
    finally:
        if had:
            setattr(obj, name, old)
        else:
            delattr(obj, name)


class Spy:
    """Wraps methods of classes for the duration of a ``with`` block and records calls."""

    def __init__(self):
        self.events = []
        self._stack = contextlib.ExitStack()

    def wrap(self, cls, name, before=None, after=None):
        orig = cls.__dict__[name]
        spy = self

        def wrapper(self_, *a, **k):
            if before:
                before(spy, self_, *a, **k)
            try:
                r = orig(self_, *a, **k)
            except BaseException as e:
                if after:
                    after(spy, self_, a, k, None, e)
                raise
            if after:
                after(spy, self_, a, k, r, None)
            return r

        wrapper.__wrapped__ = orig
        self._stack.enter_context(patched(cls, name, wrapper))

    def __enter__(self):
        self._stack.__enter__()
        return self

    def __exit__(self, *exc):
        return self._stack.__exit__(*exc)


def tagval(x):
    """concrete float of a (possibly 0-d / 1-element) pint quantity or array"""
    m = x.magnitude if hasattr(x, "magnitude") else x
    m = np.asarray(m)
    return m.reshape(-1)[0]


def scalar_of(x):
    """first element (object) of a quantity / array, without float conversion"""
    m = x.magnitude if hasattr(x, "magnitude") else x
    if isinstance(m, np.ndarray):
        return m.reshape(-1)[0]
    return m


class Dep:
    """Payload element standing for a sample that may be missing (NaN / masked cell).

    Arithmetic propagates the set of publications a result was computed from -- also through a
    zero weight, exactly like ``0 * nan`` and ``0 * numpy.ma.masked`` do.  A delivered value whose
    set contains a publication that the exact result does not depend on would be NaN / masked
    whenever that publication is."""

    __slots__ = ("deps",)

    def __init__(self, deps):
        self.deps = frozenset(deps)

    def _u(self, other):
        if isinstance(other, Dep):
            return Dep(self.deps | other.deps)
        return Dep(self.deps)

    __add__ = __radd__ = __sub__ = __rsub__ = __mul__ = __rmul__ = __truediv__ = _u

    def __rtruediv__(self, other):
        return Dep(self.deps)

    def __neg__(self):
        return self

    __pos__ = __neg__

    def __float__(self):
        raise symx.SymbolicLeak("float() of a Dep payload")

    def __repr__(self):
        return "Dep(" + ",".join(str(d) for d in sorted(self.deps)) + ")"


class HComp(fm.TimeComponent):
    """Harness time component: symbolic start, list of (cycled) symbolic steps.

    Pulls every input at the new time in ``_update`` (which is the announced
    ``next_time``), then publishes a concrete tag ``1000*idx + k`` on each output.
    """

    def __init__(self, name, idx, start, steps, inputs=(), outputs=(), initial_pull=True,
                 on_update=None, value=None, units="", in_units=None, out_deps=None, finish_after=None,
                 required_idiom=False):
        super().__init__()
        self._name = name
        self.idx = idx
        self._time = start
        self.start = start
        self.steps = list(steps)
        self.in_names = list(inputs)
        self.out_names = list(outputs)
        self.initial_pull = initial_pull
        self.k = 0  # number of updates done
        self.received = []  # (update#, input, request time, value)
        self.update_times = [start]
        self.on_update = on_update
        self.value = value
        self.units = units
        self.in_units = in_units
        self._generated = False
        self.calls = []
        # staged initial data: output -> inputs whose initial data it needs (default: all pulled inputs)
        self.out_deps = out_deps
        self._pushed0 = set()
        # component declares itself FINISHED after this many updates (None: never)
        self.finish_after = finish_after
        # producer written in the idiom of finam's own generators: initial data is generated whenever the
        # connect helper says it is still required; generation is stateful (every call advances the state)
        self.required_idiom = required_idiom
        self.generations = 0

    def step_at(self, k):
        return self.steps[k % len(self.steps)]

    def cur_step(self):
        """the step the component will take next: cycles with its own update count, or -- adaptive stepping --
        follows the update count of a controlling component (it can change while this component's time does not)"""
        ctrl = getattr(self, "ctrl", None)
        return self.step_at(self.k if ctrl is None else ctrl.k)

    def _next_time(self):
        return self.time + self.cur_step()

    def tag(self, k):
        if self.value is not None:
            return self.value(self, k)
        # object dtype: lets symbolic interpolation weights flow through in-place numpy ops
        return np.array([float(1000 * self.idx + k)], dtype=object)

    def _initialize(self):
        self.calls.append("initialize")
        for n in self.in_names:
            self.inputs.add(name=n, time=self.time, grid=fm.NoGrid(1), units=self.in_units)
        for n in self.out_names:
            self.outputs.add(name=n, time=self.time, grid=fm.NoGrid(1), units=self.units)
        self.create_connector(pull_data=self.in_names if self.initial_pull else [])

    def _connect(self, start_time):
        self.calls.append("connect")
        push = {}
        if self.out_deps is not None:
            for n in self.out_names:
                deps = self.out_deps.get(n, self.in_names if self.initial_pull else [])
                if n not in self._pushed0 and all(self.connector.in_data.get(i) is not None for i in deps):
                    push[n] = self.tag(0)
                    self._pushed0.add(n)
            if not self._generated and self.connector.all_data_pulled:
                self._generated = True
                for n in (self.in_names if self.initial_pull else []):
                    self.received.append((0, n, start_time, self.connector.in_data[n]))
        elif self.required_idiom:
            if not self.initial_pull or self.connector.all_data_pulled:
                for n in self.out_names:
                    if self.connector.data_required[n]:
                        self.generations += 1
                        push[n] = np.array([float(1000 * self.idx) + 0.125 * self.generations], dtype=object)
                if not self._generated and self.initial_pull:
                    for n in self.in_names:
                        self.received.append((0, n, start_time, self.connector.in_data[n]))
                self._generated = True
        elif not self._generated:
            if not self.initial_pull or self.connector.all_data_pulled:
                push = {n: self.tag(0) for n in self.out_names}
                self._generated = True
                if self.initial_pull:
                    for n in self.in_names:
                        self.received.append((0, n, start_time, self.connector.in_data[n]))
        self.try_connect(start_time, push_data=push)

    def _validate(self):
        self.calls.append("validate")

    def _update(self):
        self.calls.append("update")
        self._time = self._time + self.cur_step()
        self.k += 1
        self.update_times.append(self._time)
        if self.on_update:
            self.on_update(self)
        for n in self.in_names:
            d = self.inputs[n].pull_data(self.time)
            self.received.append((self.k, n, self.time, d))
        for n in self.out_names:
            self.outputs[n].push_data(self.tag(self.k), self.time)
        if self.finish_after is not None and self.k >= self.finish_after:
            self.status = fm.ComponentStatus.FINISHED

    def _finalize(self):
        self.calls.append("finalize")


def make_composition(comps, **kw):
    kw.setdefault("print_log", False)
    kw.setdefault("log_level", logging.CRITICAL)
    kw.setdefault("slot_memory_location", None)
    return fm.Composition(comps, **kw)


def linked_pair(out_info, in_info=None, adapters=(), out_static=False, in_static=False):
    """A bare Output -> adapters -> Input link with infos exchanged (no composition)."""
    out = fm.Output(name="out", info=out_info, static=out_static)
    inp = fm.Input(name="in", info=in_info or fm.Info(time=None, grid=None, units=None),
                   static=in_static)
    cur = out
    for a in adapters:
        cur = cur >> a
    cur >> inp
    inp.ping()
    inp.exchange_info()
    return out, inp
