#!/bin/sh
# Idempotent, offline: build /verif/.venv as an overlay of /venv with z3 + crosshair.
set -e
HERE="$(cd "$(dirname "$0")/.." && pwd)"
VENV="$HERE/.venv"
STAMP="$VENV/.ok"
if [ -f "$STAMP" ]; then exit 0; fi
(
  # serialise concurrent callers
  flock 9
  if [ -f "$STAMP" ]; then exit 0; fi
  rm -rf "$VENV"
  /venv/bin/python -m venv "$VENV" >/dev/null
  SP="$("$VENV/bin/python" -c 'import sysconfig;print(sysconfig.get_paths()["purelib"])')"
  printf "import site; site.addsitedir('/venv/lib/python3.12/site-packages')\n" > "$SP/zz_overlay.pth"
  PIP_NO_INDEX=1 "$VENV/bin/pip" install -q --no-index --find-links /opt/veriftools/wheels \
      z3-solver crosshair-tool jsonschema >/dev/null 2>&1 || \
  PIP_NO_INDEX=1 "$VENV/bin/pip" install --no-index --find-links /opt/veriftools/wheels \
      z3-solver crosshair-tool jsonschema
  "$VENV/bin/python" -c "import z3, crosshair, numpy, pint; import sys; sys.path.insert(0,'/repo/src'); import finam" >/dev/null 2>&1
  touch "$STAMP"
) 9>"$HERE/.bootstrap.lock"
