#!/bin/sh
# usage: tools/seed_full_baseline.sh <seed dir e.g. seeded2/C05>  -- runs the FULL pinned baseline command (tests + benchmarks)
# on a scratch worktree with the seed applied; prints how many of the 284 baseline tests still pass
SD=$(readlink -f "$1"); NAME=$(echo "$1" | tr '/' '_')
WT=/tmp/fullbase_$NAME
git -C /repo worktree remove --force $WT 2>/dev/null
git -C /repo worktree add -q --detach $WT HEAD || exit 9
cp /repo/src/finam/_version.py $WT/src/finam/_version.py
cd $WT
git apply $SD/patch.diff 2>/dev/null || git apply --3way $SD/patch.diff >/dev/null 2>&1 || { echo "$1 PATCH-DOES-NOT-APPLY"; cd /; git -C /repo worktree remove --force $WT; exit 9; }
PYTHONPATH=$WT/src /venv/bin/python -m pytest -ra -q -p no:cacheprovider --timeout=900 --continue-on-collection-errors --junitxml=/tmp/fullbase_$NAME.xml > /tmp/fullbase_$NAME.log 2>&1
python3 - "$1" /tmp/fullbase_$NAME.xml <<'PY'
import json, sys, xml.etree.ElementTree as ET
b=json.load(open('/root/.vp/BASELINE.json'))
t=ET.parse(sys.argv[2]).getroot()
passed=set()
for tc in t.iter('testcase'):
    if not any(c.tag in ('failure','error','skipped') for c in tc):
        passed.add(tc.get('classname')+'::'+tc.get('name'))
missing=[x for x in b['stable_pass'] if x not in passed]
print(sys.argv[1], "baseline_passed=%d/284" % (284-len(missing)), "missing=", missing[:3])
PY
cd /; git -C /repo worktree remove --force $WT; rm -f /tmp/fullbase_$NAME.xml
