#!/bin/sh
# usage: tools/try_patch.sh <patch> <property> [tier]  -- apply to /repo, run check, revert
P="$(readlink -f "$1")"; ID="$2"; TIER="${3:-quick}"
cd /repo || exit 9
git apply "$P" 2>/dev/null || git apply --3way "$P" || { echo "PATCH DOES NOT APPLY"; git checkout HEAD -- . ; exit 9; }
cd /verif
./tools/check.sh "$ID" "$TIER" 2>&1 | grep -v "^\[.*complete=True" | tail -${TAILN:-12}
RC=$?
cd /repo && git checkout HEAD -- . && git status --short | head -3
