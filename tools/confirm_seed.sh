#!/bin/sh
# usage: tools/confirm_seed.sh <seed-dir-name>   (e.g. C01)  -- confirms a seeded change in a scratch worktree
ID="$1"
SD=/verif/${SEEDDIR:-seeded}/$ID
WT=/tmp/confirm/$ID
mkdir -p /tmp/confirm
git -C /repo worktree remove --force $WT 2>/dev/null
git -C /repo worktree add -q --detach $WT HEAD || exit 9
cp /repo/src/finam/_version.py $WT/src/finam/_version.py
cd $WT
PYTHONPATH=$WT/src /venv/bin/python $SD/demo.py >/tmp/confirm/$ID.demo0.log 2>&1; D0=$?
if [ ! -f /tmp/confirm/baseline.txt ]; then
  PYTHONPATH=$WT/src /venv/bin/python -m pytest -q -p no:cacheprovider --timeout=900 -rA tests 2>&1 | grep -E "^(PASSED|FAILED|ERROR)" | sort > /tmp/confirm/baseline.txt
fi
git apply $SD/patch.diff 2>/dev/null || git apply --3way $SD/patch.diff || { echo "$ID: patch does not apply"; exit 9; }
PYTHONPATH=$WT/src /venv/bin/python $SD/demo.py >/tmp/confirm/$ID.demo1.log 2>&1; D1=$?
PYTHONPATH=$WT/src /venv/bin/python -m pytest -q -p no:cacheprovider --timeout=900 -rA tests 2>&1 | grep -E "^(PASSED|FAILED|ERROR)" | sort > /tmp/confirm/$ID.tests.txt
if diff -q /tmp/confirm/baseline.txt /tmp/confirm/$ID.tests.txt >/dev/null; then TS=same; else TS=DIFFERENT; fi
NP=$(grep -c ^PASSED /tmp/confirm/$ID.tests.txt)
echo "$ID demo_unpatched_exit=$D0 demo_patched_exit=$D1 tests=$TS passed=$NP" | tee /tmp/confirm/$ID.result
cd /; git -C /repo worktree remove --force $WT
