#!/bin/sh
# usage: tools/run_all.sh <quick|thorough>  -- runs every claimed check sequentially, prints a summary
TIER="${1:-quick}"
cd "$(dirname "$0")/.."
for id in C01 C02 C03 C04 C05 C06 C07 C08 C09 C10 C11 C12 C13 C14 C15 C16 C17 C18 C19 C20; do
  S=$(date +%s)
  ./tools/check.sh $id $TIER > /tmp/runall_$id.$TIER.log 2>&1
  RC=$?
  E=$(date +%s)
  echo "$id $TIER exit=$RC wall=$((E-S))s $(grep -c '^VIOLATION' /tmp/runall_$id.$TIER.log) violations, $(grep -c '^KNOWN-FINDING' /tmp/runall_$id.$TIER.log) known, $(grep -c '^HARNESS-PROBLEM' /tmp/runall_$id.$TIER.log) problems"
done
