#!/bin/sh
# Every seed of every round against the quick check of its property, on scratch worktrees (VERIF_REPO); /repo untouched.
cd "$(dirname "$0")/.."
OUT=${MATRIX_OUT:-seeded/RESULTS.txt}
: > $OUT.new
for dir in ${SEED_DIRS:-seeded seeded2 seeded3 seeded4 seeded5 seeded6}; do
  for d in $dir/C*; do
    id=$(basename $d)
    [ -f $d/patch.diff ] || continue
    S=$(date +%s)
    R=$(TAILN=400 ./tools/try_patch_scratch.sh $d/patch.diff $id quick 2>&1)
    E=$(date +%s)
    V=$(echo "$R" | grep -c '^VIOLATION')
    PB=$(echo "$R" | grep -c 'HARNESS-PROBLEM')
    L=$(echo "$R" | grep -A1 '^VIOLATION' | grep '^  (' | sed 's/^  (//; s/ \[.*//' | sort -u | tr '\n' ',' | cut -c1-160)
    F=$(echo "$R" | grep '^VIOLATION' | sed 's|.*/replays/[^/]*/||; s/-[0-9a-f]*\.json//' | sort -u | tr '\n' ',' | cut -c1-200)
    echo "$dir/$id caught=$([ $V -gt 0 ] && echo yes || echo NO) violations=$V problems=$PB wall=$((E-S))s families=[$F] labels=[$L]" >> $OUT.new
  done
done
mv $OUT.new $OUT
