#!/bin/sh
HERE="$(cd "$(dirname "$0")/.." && pwd)"
cd "$HERE" || exit 2
./tools/bootstrap.sh || exit 2
export PYTHONPATH="$HERE:/repo/src" OMP_NUM_THREADS=1 PYTHONDONTWRITEBYTECODE=1
exec "$HERE/.venv/bin/python" -m vf.replay "$@"
