#!/bin/sh
# usage: tools/try_patch_scratch.sh <patch> <property> [tier]
# like try_patch.sh but on a scratch worktree of /repo (VERIF_REPO), so /repo itself is not touched
P="$(readlink -f "$1")"; ID="$2"; TIER="${3:-quick}"
WT=/tmp/seedrepo_$$
git -C /repo worktree add -q --detach $WT HEAD || exit 9
cp /repo/src/finam/_version.py $WT/src/finam/_version.py
(cd $WT && (git apply "$P" 2>/dev/null || git apply --3way "$P" >/dev/null 2>&1)) || { echo "PATCH DOES NOT APPLY"; git -C /repo worktree remove --force $WT; exit 9; }
cd /verif
mkdir -p /tmp/scratch_evidence
VERIF_REPO=$WT VERIF_EVIDENCE_DIR=/tmp/scratch_evidence ./tools/check.sh "$ID" "$TIER" 2>&1 | grep -v "^\[.*complete=True" | tail -${TAILN:-12}
git -C /repo worktree remove --force $WT
