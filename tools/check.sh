#!/bin/sh
# usage: tools/check.sh <property-id> <quick|thorough>
HERE="$(cd "$(dirname "$0")/.." && pwd)"
cd "$HERE" || exit 2
./tools/bootstrap.sh || { echo "bootstrap failed"; exit 2; }
export PYTHONPATH="$HERE:${VERIF_REPO:-/repo}/src"
export FINAM_VERIF=1
export OMP_NUM_THREADS=1 OPENBLAS_NUM_THREADS=1 MKL_NUM_THREADS=1
export PYTHONDONTWRITEBYTECODE=1
exec "$HERE/.venv/bin/python" -m vf.run "$@"
