#!/usr/bin/env python3
"""Regenerates MANIFEST.json from the table below (kept in one place so it stays valid)."""
import json
import os

ROOT = os.path.dirname(os.path.dirname(os.path.abspath(__file__)))

ENGINE_NOTE = ("trusted base: z3 5.1.0; the symx proxies (SymDT/SymTD/SymInt/SymReal: cross-validated on every "
               "explored path by re-running the same harness on the real code with ordinary datetime/float "
               "values taken from the path's model); floats as reals; times within 1971..2255")

# id -> (technique, level text, design ref, extra note)
CLAIMED = {
    "C08": ("bounded symbolic execution of the real Output/Input link code (symx proxies + z3), "
            "counterexamples replayed concretely",
            "For every k<=4 publications with arbitrary integer-microsecond gaps and every m<=3 non-decreasing "
            "request times, the real push/pull code serves the exactly nearest publication, serves exactly the "
            "requests inside the retained range and refuses the others; all feasible paths are enumerated and "
            "each oracle obligation is discharged by z3 (unsat) -- a bounded claim, nothing outside the bounds.",
            "DESIGN.md section 4, C08"),
}

SCHED = ("bounded symbolic execution of the real Composition.connect/run (symx proxies + z3) on a catalogue of "
         "topologies with symbolic starts, steps, delays and end time; counterexamples replayed concretely")
CLAIMED.update({
    "C01": (SCHED,
            "For each listed topology (DAGs with scaling/interpolation/integration/delay adapters, pull-based components "
            "in between, two-input consumers, delay-resolved rings) and every integer-microsecond choice of start offsets, "
            "steps, delays and end time, all feasible paths of the real scheduler with at most the stated number of updates "
            "are enumerated; on each, z3 discharges 'source already published up to the time that will be requested' at "
            "every update and 'request inside the retained range' at every pull, and no path ends in a time/no-data error "
            "(bounded: topologies, update count). In addition, ONE scheduling step of the real run loop from an ARBITRARY "
            "symbolic state (any component times, steps, delays, delay-adapter memories; every listing order up to 4 "
            "components; all pairs and, thorough, triples of adapter kinds in every ordering) shows the driver never "
            "advances a component whose source lags -- no bound on the length of the run for that part. Two known findings "
            "(fan-out at a pull-based output; delay adapter upstream of a push-based adapter) are listed in "
            "known_findings.json.",
            "DESIGN.md section 4, C01"),
    "C02": (SCHED,
            "Same exploration; obligations: the component picked at each scheduling step is not ahead of any other, every "
            "updated component is reached from it along links that still lack data (independent specification walk with "
            "accumulated delay shifts), and the time that actually reaches the source output equals the shifted time the "
            "schedule was computed for (chains of 1-3 delay adapters, pull-based components in between).",
            "DESIGN.md section 4, C02"),
    "C03": (SCHED,
            "Same exploration; obligations per feasible path: run returns, every time component ends at or beyond the "
            "symbolic end time, update times strictly increase, no update once all reached the end (for end after start), "
            "life-cycle call word and final status per component, every adapter finalized exactly once. Termination only "
            "within the update bound (paths that need more updates are cut and counted).",
            "DESIGN.md section 4, C03"),
    "C04": (SCHED,
            "Rings of 2-5 components (chord, tail, pull-based member): without delay every feasible path ends in "
            "FinamCircularCouplingError (equal starts) or in that error / a clean early finish (symbolic offsets), never in "
            "another exception or deep recursion; with DelayFixed adapters constrained by sum(delays) >= sum(largest steps) "
            "(one adapter, two/three chained, split over links) every feasible path completes with the C01 obligations "
            "discharged.",
            "DESIGN.md section 4, C04"),
})

LINK = ("bounded symbolic execution of the real output/adapter/input link code (symx proxies + z3) over symbolic "
        "publication/request sequences; counterexamples replayed concretely")
CLAIMED.update({
    "C09": (LINK,
            "For 1-4 consumers (direct, behind pass-through adapters incl. two inputs behind one shared adapter, behind "
            "push-based adapters) every event sequence up to the stated length with arbitrary integer-microsecond gaps "
            "and per-consumer non-decreasing request times is explored; every pull of the real Output equals the pull of "
            "an unlimited-history twin (same tag or same error class), and z3 discharges the retention bound once all "
            "consumers have pulled (bounded by sequence length). For direct consumers an INDUCTIVE STEP from an arbitrary "
            "symbolic state of the real Output satisfying an explicit history invariant (1-4 consumers, 1-4 retained "
            "publications, 'something was dropped' ghost) re-establishes the invariant after any event and shows no refusal "
            "is caused by dropped history -- this part covers runs of any length, relative to the stated invariant.",
            "DESIGN.md section 4, C09 and section 8"),
    "C11": (LINK,
            "For NextTime/PreviousTime/LinearTime/StepTime, for publish/request patterns with up to 4 publications and 3 "
            "requests, with symbolic real values, symbolic request times, concrete irregular as well as fully symbolic "
            "gaps and a symbolic step position in [0,1], z3 refutes 'delivered != definition' on every feasible path and "
            "shows that refusals coincide with requests outside the published range; the definition is built over all "
            "publications, so buffer clearing cannot matter. An inductive step (one request or publication from an arbitrary "
            "buffer state satisfying the clearing invariant) extends this to histories of any length. Reals stand in for "
            "floats; missing values (nan / masked cells) are covered by dependency-set payloads: the delivered value is "
            "computed from exactly the publications the definition uses.",
            "DESIGN.md section 4, C11"),
    "C13": (LINK,
            "For chains of 1-3 DelayFixed/DelayToPull(n<=3)/DelayToPush adapters mixed with Scale, symbolic delays, gaps and "
            "non-decreasing requests: the time arriving at the source output equals the composition of the documented "
            "shifts in pull order (z3 refutes inequality on every path) and the delivered payload is the source's payload "
            "for that time, also for requests issued from inside a publication notification (push-type consumer); inside "
            "real Composition runs and one-step families the same equality links the driver's scheduling time to the actual "
            "request, with the shifts computed by the harness itself (not by the adapters' with_delay).",
            "DESIGN.md section 4, C13"),
})

CLAIMED.update({
    "C10": ("bounded symbolic execution with the memory limit as a symbolic integer (symx proxies + z3) of the real "
            "spill code, differential against the unlimited run, real file I/O",
            "For each buffering slot kind (Output, NextTime, PreviousTime, LinearTime, StepTime, StackTime, AvgOverTime "
            "linear/step, SumOverTime absolute/per-time), plain and masked payloads, the limit set per slot or "
            "composition-wide: z3 enumerates every limit interval that changes a spill decision of the real _pack "
            "comparison (off, 0, each prefix of publications in RAM, everything in RAM); on each the consumer receives "
            "exactly what the unlimited run delivers, all files are created directly under the configured location and "
            "none remains after run(). Schedules and payloads are concrete (4-6 daily publications).",
            "DESIGN.md section 4, C10"),
    "C12": (LINK,
            "For AvgOverTime, SumOverTime(per_time) and SumOverTime(absolute), linear and step interpolation with a "
            "symbolic step position, publish/pull patterns with up to 5 publications and 3 pulls, symbolic real values "
            "and symbolic strictly increasing pull times over concrete irregular gaps: z3 (nonlinear real arithmetic) "
            "refutes 'delivered != exact integral of the interpolant' on every path, the partition independence against "
            "a twin adapter, and 'average outside the range of contributing values'; fully symbolic gaps only in the "
            "thorough tier, where 'unknown' answers are counted and excluded. An inductive step (one pull from an arbitrary "
            "adapter state: previous pull times and buffer satisfying the clearing invariant) covers histories of any "
            "length for the integral claim. Missing values: with dependency-set payloads the delivered value depends on "
            "exactly the publications the integral over [p0,p1] depends on (no leak through zero weights).",
            "DESIGN.md section 4, C12"),
})

CLAIMED.update({
    "C05": ("bounded symbolic execution of a product harness (same symbolic scenario run twice through the real "
            "Composition in two listing/linking orders; symx proxies + z3)",
            "For each listed topology (chains, fan-in/out, double link, pull-based member, staged initial-data handshake, "
            "delay-resolved ring) and permutation of the component list and of link creation (all of them in the thorough "
            "tier up to a cap of 12 per topology, reversed orders in the quick tier), for all integer-microsecond start "
            "offsets, steps, delays and end times (end after start) within the update bound: same outcome class, equal "
            "exchanged infos, and z3 refutes any difference in final times, request times and received values.",
            "DESIGN.md section 4, C05"),
    "C20": ("bounded symbolic execution of the real static slots, of Composition.run through pull-based components, and "
            "of WeightedSum with symbolic values (symx proxies + z3)",
            "Static slots: for every sequence of 3-4 requests (None or any time) the delivery is term-equal to the one "
            "publication, a second publication is refused, a static input fetches once. Pull-based: on topologies with one "
            "or two pull-based components (fan-in, fan-out, delays around them) z3 refutes 'provider invoked for a time "
            "other than the consumer's (shifted) request' and 'own pulls at another time'; C01 obligations hold through "
            "them except for the recorded known finding (fan-out at a pull-based output). WeightedSum: delivered term ≡ "
            "Σ value·weight (2-3 pairs, mixed compatible units, one and two consumers).",
            "DESIGN.md section 4, C20"),
})

CLAIMED.update({
    "C06": ("bounded symbolic execution of the real iterative connect (Composition.connect, ConnectHelper) with "
            "spec-driven harness components, symbolic start offsets and listing order (symx proxies + z3)",
            "For a catalogue of 10 dependency scenarios (declared / rule-transferred / manually forwarded infos, initial "
            "pulls, staged initial data, acyclic and cyclic rings, partly stuck compositions; up to 4 components), every "
            "listing order and all start offsets: connect() terminates within the iteration bound; if an independent least "
            "fix-point says acyclic, everything is connected, all infos/data exchanged, z3 proves a publication exists for "
            "the composition start and for the producer's own start, initial pulls deliver the producer's value; otherwise "
            "FinamCircularCouplingError names exactly the complement of the fix-point; every single ConnectHelper.connect "
            "call reports CONNECTED/CONNECTING/IDLE consistently with the observed exchanges. Mostly a structural case "
            "split; the solver's part is the start-time arithmetic and path feasibility.",
            "DESIGN.md section 4, C06"),
    "C14": ("symbolic execution of the real grid shape logic with symbolic axis lengths (symx + z3) plus an "
            "engine-directed complete case split over layouts and operation sequences on concrete small grids",
            "Closed forms of data_shape/data_size/point_count/cell_count proved by z3 for ALL axis lengths >= 1 in 1-3 "
            "dimensions and all flags, including after a data_location change; for every concrete small Uniform/"
            "Rectilinear/ESRI grid layout (order, axes_reversed, directions, location, degenerate axes) the data_axes / "
            "data_points / cells / cell_centers / unstructured-cast consistency holds; every sequence of up to 4-5 reads, "
            "copies and location changes leaves shape/size/points current. The layout and ops parts use concrete "
            "coordinates (enumeration, stated as such).",
            "DESIGN.md section 4, C14"),
    "C15": ("symbolic execution of the real to_canonical/from_canonical on arrays of symbolic shape (LazyArr over an "
            "uninterpreted function; symx + z3), and of the real Output->Input grid transform with symbolic payloads",
            "For all axis lengths >= 1 (1-3 D), all layout flags and both locations z3 proves canonical[ix,iy,iz] is the "
            "element at ascending coordinate indices and from_canonical∘to_canonical = identity (index-term equality on "
            "symbolic in-range indices) with the right shapes; for every pair of layouts of the same small geometry "
            "(Uniform, Rectilinear, ESRI; cells/points; masked/unmasked; data with time axis) the delivered array has the "
            "target shape and carries each symbolic value at the same physical location; compatible_with ⇔ same set of "
            "data locations over geometry/crs/location/layout variants.",
            "DESIGN.md section 4, C15"),
})

CLAIMED.update({
    "C07": ("engine-directed complete case split (symx; z3 for feasibility) over metadata set/unset/compatible/"
            "incompatible choices through the real info-exchange code",
            "For producer x one or two consumers over grid (unset, three layouts of one geometry, another geometry, NoGrid) x "
            "mask (FLEX, NONE, nomask, all-false, two fixed masks per layout), and units (unset, m, km, s) x time x extra "
            "metadata, plus ValueToGrid/GridToValue/SumOverTime(per_time): the link is accepted iff the statement's rule says "
            "compatible, FinamMetaDataError otherwise; after success no unset field, consumer-set values kept, unset ones "
            "taken from the other side, masks in the input grid's layout, and pushed data arrives as agreed. Structural "
            "property: exhaustive enumeration of a finite catalogue, not a symbolic-arithmetic claim.",
            "DESIGN.md section 4, C07"),
    "C17": ("inductive step over the unit-pair memo and for-all-values conversion check by symbolic execution (symx + z3), "
            "pint as trusted oracle for dimension/factor/offset",
            "For every ordered pair of a 34-string catalogue (13 in the quick tier): from every invariant-satisfying "
            "pre-state of the memo out of {empty, pair cached, reversed pair cached, both, catalogue slice cached}, every "
            "sequence of 2-3 compatible/equivalent queries in both directions returns the fresh dimensional-analysis answer "
            "and preserves the invariant (history independence by induction); with symbolic real magnitudes, to_units / "
            "prepare / the Output->Input link relabel iff equivalent, compute a·v+b with pint's (a,b) otherwise, and refuse "
            "iff the dimensions differ. Not claimed: that pint assigns the right dimension/factor to each unit string.",
            "DESIGN.md section 4, C17"),
    "C18": ("solver-directed exhaustive split over masks with symbolic (uninterpreted) values through the real compress/"
            "expand/prepare code, and over mask specification x layout pairs through the real connect-time mask rule",
            "For every shape listed (up to 8 elements quick / 12 thorough, 1-3 dimensions), both orders, all masks and plain/"
            "masked/quantified inputs: compressed length and order, values back at their positions (z3 term equality), mask "
            "restored; prepare applies exactly the info mask for all 64 masks of a 2x3 grid and three payload forms; the "
            "connect rule (flexible accepts any, unmasked only unmasked, fixed only physically equal masks) for 9x9 mask "
            "specifications x all layouts on both sides x consumer grid set/unset.",
            "DESIGN.md section 4, C18"),
    "C19": ("symbolic execution of the real dead-link check with free symbolic needs_push/needs_pull flags (symx + z3) "
            "and an engine-directed case split over real topologies through Composition.connect",
            "For chains of 0-4 adapter stubs z3 proves raised ⇔ 'a pull-only element precedes a push-needing one' for ALL "
            "flag assignments (transferred to the 15 real slot/adapter classes by reading their flags); for every real "
            "topology out of source kind x sink kind x adapter chain (<=3) x fan-out position x missing component x dangling "
            "input: FinamConnectError iff the statement's rule says unworkable, nothing pushed or pulled before the "
            "rejection, and metadata['links'] equals the created links on success.",
            "DESIGN.md section 4, C19"),
})

PENDING = {}

NOT_APPLICABLE = {}

CLAIMED["C16"] = (
    "symbolic payload values through the real RegridNearest adapter over an engine-directed case split of concrete "
    "grid pairs (symx + z3); linear regridding NOT covered",
    "PARTIAL: only the nearest-neighbour half. Geometry is concrete (scipy's compiled KDTree decides the source index), "
    "payload values are symbolic: for every combination of source/target grid kind (uniform in all layouts and orders, "
    "unstructured cells, unstructured points), data location and source/target masks on small 1-3-D geometries, z3 "
    "refutes 'delivered value at an unmasked target location is not the value of a Euclidean-nearest unmasked source "
    "location' for all values, masked target cells stay masked, and regridding between layouts of the same geometry is "
    "the identity. The linear half of the property (RegularGridInterpolator / LinearNDInterpolator on float arrays, "
    "affine exactness, convex-hull masking, fill_with_nearest) cannot be executed symbolically and is not claimed.",
    "DESIGN.md section 4, C16 and section 8",
    "partial claim: linear regridding not applicable to the technique")


def main():
    props = [json.loads(l)["id"] for l in open(os.path.join(ROOT, "properties.jsonl"))]
    checks = []
    na = []
    for pid in props:
        if pid in CLAIMED:
            tech, text, ref = CLAIMED[pid][:3]
            checks.append({
                "property_id": pid,
                "quick_cmd": f"tools/check.sh {pid} quick",
                "thorough_cmd": f"tools/check.sh {pid} thorough",
                "evidence_file": f"/verif/evidence/{pid}.json",
                "replay_cmd_template": "tools/replay.sh {path}",
                "engine": "symx",
                "level_claimed": {"category": "other", "text": text, "design_ref": ref},
                "level_note": ENGINE_NOTE + (("; " + CLAIMED[pid][3]) if len(CLAIMED[pid]) > 3 else ""),
                "technique": tech,
            })
        elif pid in NOT_APPLICABLE:
            na.append({"property_id": pid, "reason": NOT_APPLICABLE[pid]})
        else:
            na.append({"property_id": pid, "reason": PENDING.get(
                pid, "check not built yet (work in progress; design in DESIGN.md section 4)")})
    man = {
        "version": 1,
        "setup_cmd": "tools/bootstrap.sh",
        "hooks": {
            "guard": "FINAM_VERIF",
            "enable": "no source hooks: all monitors wrap finam classes from outside at run time "
                      "(tools/check.sh exports FINAM_VERIF=1 for uniformity only)",
            "baseline_off_cmd": "cd /repo && /venv/bin/python -m pytest -ra -q -p no:cacheprovider --timeout=900 "
                                "--continue-on-collection-errors",
            "source_commits": [],
            "add_only": True,
        },
        "engines": [
            {"name": "symx", "path": "vf/symx.py", "serves_properties": sorted(CLAIMED),
             "kind_free_text": "own proxy-based dynamic symbolic execution of the real Python code; z3 decides "
                               "branch feasibility and every oracle obligation; DFS by re-execution over 16 processes"},
        ],
        "checks": checks,
        "not_applicable": na,
        "notes": "Exit codes: 0 held within bounds; 1 replay-confirmed violation; 2 inconclusive / harness error "
                 "(never reported as success). Known findings: known_findings.json. C16 is claimed only for its "
                 "nearest-neighbour half; the linear-regridding half is not applicable to solver-based checking "
                 "(compiled scipy interpolators) and is not covered by any check.",
    }
    with open(os.path.join(ROOT, "MANIFEST.json"), "w") as f:
        json.dump(man, f, indent=1)
    print("claimed", len(checks), "n/a", len(na))


if __name__ == "__main__":
    main()
