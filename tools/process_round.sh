#!/bin/sh
# usage: tools/process_round.sh /tmp/out5 seeded4   -- collect a round of seeds, test detection (scratch worktree), confirm
OUT="$1"; SD="$2"
cd "$(dirname "$0")/.."
mkdir -p $SD
: > $SD/DETECTION.txt
for d in $OUT/C*; do
  id=$(basename $d)
  [ -f $d/patch.diff ] || continue
  mkdir -p $SD/$id
  cp $d/patch.diff $d/demo.py $d/notes.md $SD/$id/ 2>/dev/null
  R=$(./tools/try_patch_scratch.sh $SD/$id/patch.diff $id quick 2>&1)
  V=$(echo "$R" | grep -c '^VIOLATION')
  PB=$(echo "$R" | grep -c 'HARNESS-PROBLEM')
  L=$(echo "$R" | grep -A1 '^VIOLATION' | grep '^  (' | sed 's/^  (//; s/ \[.*//' | sort -u | tr '\n' ',' | cut -c1-160)
  F=$(echo "$R" | grep '^VIOLATION' | sed 's|.*/replays/[^/]*/||; s/-[0-9a-f]*\.json//' | sort -u | tr '\n' ',' | cut -c1-160)
  echo "$SD/$id violations=$V problems=$PB families=[$F] labels=[$L]" | tee -a $SD/DETECTION.txt
done
