#!/bin/sh
# Applies every seeded change to /repo in turn, runs the quick check of its property, reverts.
# Writes seeded/RESULTS.txt.  /repo must be clean and otherwise unused while this runs.
cd "$(dirname "$0")/.."
OUT=seeded/RESULTS.txt
: > $OUT
for dir in seeded seeded2; do
  for d in $dir/C*; do
    id=$(basename $d)
    [ -f $d/patch.diff ] || continue
    P=$(readlink -f $d/patch.diff)
    (cd /repo && git apply "$P" 2>/dev/null || git apply --3way "$P" >/dev/null 2>&1) || { echo "$dir/$id PATCH-DOES-NOT-APPLY" >> $OUT; (cd /repo && git checkout HEAD -- .); continue; }
    S=$(date +%s)
    ./tools/check.sh $id quick > /tmp/seedmx.log 2>&1; RC=$?
    E=$(date +%s)
    (cd /repo && git checkout HEAD -- .)
    LABELS=$(grep -A1 '^VIOLATION' /tmp/seedmx.log | grep '^  (' | sed 's/^  (//; s/ \[.*//' | sort -u | tr '\n' ',' | cut -c1-200)
    FAMS=$(grep '^VIOLATION' /tmp/seedmx.log | sed 's|.*/replays/[^/]*/||; s/-[0-9a-f]*\.json//' | sort -u | tr '\n' ',' | cut -c1-200)
    echo "$dir/$id exit=$RC wall=$((E-S))s families=[$FAMS] labels=[$LABELS]" >> $OUT
  done
done
cat $OUT
